#!/bin/bash
# Runs the pinned suite (xdist) in /repo (or $1); exit 0 only for 2096 passed and no failures.
# Several hypothesis-driven tests are randomly flaky on the pinned tree itself (test_logging.py,
# test_molecule.py::test_str_method): failed tests are re-run in isolation with a fresh example
# database; a test that fails deterministically still counts.
cd ${1:-/repo} || exit 2
export HYPOTHESIS_STORAGE_DIRECTORY=$(mktemp -d /tmp/hyp_XXXXXX)
out=$(/venv/bin/python -m pytest -q -p no:cacheprovider -n 8 --continue-on-collection-errors --timeout=900 2>&1 | grep -a -E "^FAILED|passed|failed" | tail -12)
echo "$out" | cut -c1-160
rm -rf $HYPOTHESIS_STORAGE_DIRECTORY
if echo "$out" | grep -q "2096 passed" && ! echo "$out" | grep -q -E "[0-9]+ failed"; then exit 0; fi
nfail=$(echo "$out" | grep -a -c "^FAILED")
if [ "$nfail" -gt 0 ] && [ "$nfail" -le 4 ] && echo "$out" | grep -q -E "209[0-9] passed"; then
  ids=$(echo "$out" | grep -a "^FAILED" | sed 's/^FAILED //; s/ - .*//')
  for try in 1 2 3; do
    export HYPOTHESIS_STORAGE_DIRECTORY=$(mktemp -d /tmp/hyp_XXXXXX)
    res=$(/venv/bin/python -m pytest -q -p no:cacheprovider $ids 2>&1 | tail -1)
    rm -rf $HYPOTHESIS_STORAGE_DIRECTORY
    echo "  retry $try of [$ids]: $res"
    if echo "$res" | grep -q "passed" && ! echo "$res" | grep -q "failed"; then exit 0; fi
  done
fi
exit 1
