#!/bin/bash
# Runs the pinned suite (xdist) in /repo (or $1); exit 0 only for "2096 passed" and no failures.
cd ${1:-/repo} || exit 2
out=$(HYPOTHESIS_STORAGE_DIRECTORY=/tmp/hyp_main /venv/bin/python -m pytest -q -p no:cacheprovider -n 8 --continue-on-collection-errors --timeout=900 2>&1 | grep -a -E "^FAILED|passed|failed" | tail -5)
echo "$out"
echo "$out" | grep -q "2096 passed" || exit 1
echo "$out" | grep -q -E "[0-9]+ failed" && exit 1
exit 0
