#!/bin/bash
# sweep_subset.sh <tier> <name> ... : like sweep.sh for the given seeded names / mutant patch paths only; replaces their lines in
# seeded/RESULTS_<tier>.tsv and updates meta.json "detected_by".
tier=$1; shift
out=/verif/seeded/RESULTS_$tier.tsv
tmp=$(mktemp -d)
printf '%s\n' "$@" > $tmp/names
cat $tmp/names | xargs -P 4 -I{} bash -c "/verif/tools/run_seed.sh {} $tier 2>&1 | grep '^SEED' > $tmp/\$(basename {} .patch).res"
cat $tmp/*.res | sort > $tmp/new.tsv
cat $tmp/new.tsv
awk '{print $2}' $tmp/new.tsv > $tmp/done
grep -v -w -F -f $tmp/done $out > $tmp/old.tsv
cat $tmp/old.tsv $tmp/new.tsv | sort > $out
/venv/bin/python - "$tmp/new.tsv" "$tier" <<'PY'
import json, os, re, sys
for line in open(sys.argv[1]):
    m = re.match(r'SEED (\S+) property=(\S+) tier=(\S+) exit=(\d+) violations=(\d+) signatures: (.*)', line)
    if not m:
        continue
    name, prop, tier, rc, nviol, sigs = m.groups()
    meta_path = '/verif/seeded/%s/meta.json' % name
    if os.path.exists(meta_path):
        meta = json.load(open(meta_path))
        if not isinstance(meta.get('detected_by'), dict):
            meta['detected_by'] = {}
        meta['detected_by'][tier] = {'check': './check %s --tier %s' % (prop, tier), 'exit': int(rc), 'violations': int(nviol), 'signatures': sigs.split()}
        json.dump(meta, open(meta_path, 'w'), indent=1)
PY
rm -rf $tmp
