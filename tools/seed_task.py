#!/usr/bin/env python3
"""Create a scratch worktree for a mutant-seeding sub-agent and write its task file.
usage: seed_task.py <ID> [<tag>]   -> /tmp/wt/<ID><tag>/_TASK.md
The task file contains ONLY the property's text; nothing from /verif."""
import json, os, subprocess, sys
pid = sys.argv[1]
tag = sys.argv[2] if len(sys.argv) > 2 else ''
wt = '/tmp/wt/%s%s' % (pid, tag)
if not os.path.isdir(wt):
    subprocess.check_call(['git', '-C', '/repo', 'worktree', 'add', '-q', '--detach', wt, 'HEAD'])
prop = [json.loads(l) for l in open('/verif/properties.jsonl') if json.loads(l)['id'] == pid][0]
extra = sys.argv[3] if len(sys.argv) > 3 else ''
if tag:
    try:
        sites = json.load(open('/verif/tools/first_wave_sites.json')).get(pid, [])
    except Exception:
        sites = []
    if sites:
        third = tag.endswith('3')
        if tag.endswith('4'):
            third = False
        extra = (('Six' if tag.endswith('4') else 'Four' if third else 'Two') + ' changes for this property have ALREADY been collected; they sit at:\n' +
                 ''.join('  - %s\n' % s for s in sites) +
                 'Do NOT touch those functions again. Choose other mechanisms the guarantee depends on - supporting code counts '
                 '(helpers in graph_utils.py, molecule.py, utils.py, selectors.py, parser_utils.py, truncating_formatter.py, '
                 'geometry.py, forcefield.py, system.py, processors that run earlier in the pipeline, or the way bin/martinize2 '
                 'wires things together). Changes whose effect depends on state left behind by an EARLIER call in the same process '
                 '(a cache hoisted to module or instance scope, a default argument that is mutated, an object shared instead of copied) '
                 'or on two sites that each look fine alone are especially welcome.\n' + extra)
        fourth = tag.endswith('4')
        if fourth:
            extra += ('For this round look in particular at: (1) the warnings, reports and errors the property promises (a message that is no '
                      'longer emitted, emitted once instead of per item, at a lower level, with another type, or an error that has become a '
                      'warning) and the conditions under which they fire; (2) "optimisations" whose result differs only for rare shapes (early '
                      'exit, caching by a key that is almost unique, sorting once instead of per group, set instead of list, numpy vectorisation '
                      'with a different rounding or NaN behaviour); (3) Python and numpy semantics (integer vs float division, float equality, '
                      'truthiness of 0 / empty containers / numpy arrays, stability of sorts, dict and set iteration order, shallow vs deep '
                      'copies, default arguments, swapped keyword arguments of the same type); (4) code paths only taken for large or unusual '
                      'but legal inputs (more than 9999 atoms, several models, insertion codes, negative numbers, non-protein molecules, empty '
                      'molecules). The change must still break THIS property.\n')
        if third:
            extra += ('For this round look in particular at: (1) how bin/martinize2 wires the pipeline together - option parsing and defaults, '
                      'the order of processors, what is passed from one step to the next, what happens with several chains / several molecules / '
                      'ligands / -sep / -merge; (2) boundary relations in rarely taken branches (<, <=, first/last element, empty or single-element '
                      'collections, zero, negative or repeated residue numbers, insertion codes, missing optional attributes); (3) the interplay of '
                      'two steps, where the earlier one leaves something (an attribute, an ordering, a key numbering) the later one relies on; '
                      '(4) parsing and formatting helpers shared by several modules. The change must still break THIS property.\n')
text = """# Task: seed two property-breaking changes

You are working on the Python project vermouth-martinize (Vermouth/Martinize2) in the git
worktree `{wt}` (a scratch checkout of a pinned commit). Work ONLY inside `{wt}`.
Do not read or modify `/repo` or `/verif` or any other checkout.

Python interpreter: `/venv/bin/python` (run everything with the current directory set to `{wt}`,
so that `import vermouth` resolves to this worktree: check with
`cd {wt} && /venv/bin/python -c "import vermouth; print(vermouth.__file__)"`).
There is no network. The shell prints a harmless conda WARNING line on every command.

## The property (this is a guarantee users rely on)

id: {id}
title: {title}

statement: {statement}

quantified over: {quant}

why the existing tests cannot settle it: {why}

code it is anchored in: {files}
mechanisms: {mech}

## What to produce

TWO different, independent source changes (alternatives, not cumulative) to the library/CLI code
(not to tests), each of which

1. BREAKS the property above for some input / operation sequence / configuration / crash point,
2. still lets the whole existing test-suite pass unchanged. The suite command is

       cd {wt} && HYPOTHESIS_STORAGE_DIRECTORY=/tmp/hyp_{id} /venv/bin/python -m pytest -q -p no:cacheprovider -n 8 --continue-on-collection-errors --timeout=900

   On the unchanged tree its last line reads `2096 passed, 1 xfailed, ... 112 errors` (the 112 errors are
   pre-existing collection errors of modules that cannot be imported here; they are expected and must stay
   exactly the same; the passed count must stay 2096 with 0 failed),
3. is REALISTIC: the kind of slip a maintainer could make in a refactoring, optimisation or clean-up
   (wrong iteration order, stale cache, off-by-one in a relation, a dropped conjunct, a swapped index,
   a missing reset, using the wrong one of two similar variables...). No magic constants, no
   `if name == "special"` sabotage, no changes that merely raise exceptions everywhere,
4. needs something SPECIFIC to manifest - a particular multi-step sequence of operations, an unusual
   but legitimate input shape, a particular order, a crash/fault at a particular point, two sites that
   each look fine alone - i.e. it must NOT be exposed at once by ordinary use (running martinize2 on a
   normal linear protein with default options should still give the normal result).
   The two changes should sit in different functions/mechanisms and need different things to manifest.
{extra}
For each change k in {{1,2}} write into `{wt}/_seed/k/`:

* `patch.diff`  - output of `git diff` for the source change only (must apply to the clean tree with `git apply`),
* `demo.py`     - a small stand-alone program (run as `cd {wt} && /venv/bin/python _seed/k/demo.py`) that exits 0
                  on the unchanged tree and exits 1 (printing what went wrong) with the change applied. It should
                  check the property's observable behaviour against an expectation derived from the property
                  statement, not against a golden value copied from the unchanged code,
* `notes.md`    - 5-10 lines: which clause of the property breaks, what exactly is needed for it to manifest,
                  the last line of the test-suite run with the change applied, and the demo output with and without it.

Do not use `git stash` (stashes are shared between worktrees); use `git diff > file` and `git checkout -- .`.
Demos must put the current directory first on sys.path (`sys.path.insert(0, os.getcwd())`) so that the worktree's vermouth is imported.
Two hypothesis-based tests in test_logging.py (test_style_adapter, test_style_type_adapter) are randomly flaky on the unchanged tree; ignore a failure there if it also occurs without your change.

Verify all of this yourself: run the full suite with each change applied (one at a time), run the demo with and
without. When done, leave the worktree clean (`git checkout -- .`) with only the untracked `_seed/` directory
(and this file) remaining. Your final message: one short paragraph per change (file/function touched, trigger).
""".format(wt=wt, id=prop['id'], title=prop['title'], statement=prop['statement'],
           quant=prop['quantifier']['text'], why=prop['why_tests_cant'],
           files=', '.join(prop['anchors']['files']),
           mech='; '.join('%s (%s)' % (m['name'], m.get('where', '')) for m in prop['anchors']['mechanism']),
           extra=('\n' + extra + '\n') if extra else '')
open(os.path.join(wt, '_TASK.md'), 'w').write(text)
print(wt)
