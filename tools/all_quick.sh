#!/bin/bash
# all_quick.sh [seed ...] : every registered quick check for each seed; evidence goes to a scratch dir
cd /verif
for seed in "$@"; do
  for id in $(/venv/bin/python -c "import json; print(' '.join(c['property_id'] for c in json.load(open('MANIFEST.json'))['checks']))"); do
    start=$(date +%s)
    VERIF_SEED=$seed VERIF_EVIDENCE_DIR=/tmp/ev_seed$seed VERIF_REPLAY_DIR=/tmp/ev_seed$seed/replays ./check $id --tier quick > /tmp/ev_seed${seed}_$id.log 2>&1
    rc=$?
    echo "seed=$seed $id exit=$rc wall=$(( $(date +%s) - start ))s violations=$(grep -c '^VIOLATION' /tmp/ev_seed${seed}_$id.log) known=$(grep -c '^KNOWN' /tmp/ev_seed${seed}_$id.log)"
  done
done
