#!/bin/bash
# sweep.sh [tier] : run every seeded change and every mutants/*.patch against its property's check (scratch worktrees),
# 4 at a time; writes /verif/seeded/RESULTS.tsv and updates seeded/*/meta.json "detected_by".
tier=${1:-quick}
out=/verif/seeded/RESULTS_$tier.tsv
tmp=$(mktemp -d)
ls -d /verif/seeded/*/ | xargs -n1 basename | grep -v RESULTS > $tmp/names
ls /verif/mutants/*.patch >> $tmp/names
cat $tmp/names | xargs -P 4 -I{} bash -c "/verif/tools/run_seed.sh {} $tier 2>&1 | grep '^SEED' > $tmp/\$(basename {} .patch).res"
cat $tmp/*.res | sort > $out
cat $out
/venv/bin/python - "$out" "$tier" <<'PY'
import json, os, re, sys
for line in open(sys.argv[1]):
    m = re.match(r'SEED (\S+) property=(\S+) tier=(\S+) exit=(\d+) violations=(\d+) signatures: (.*)', line)
    if not m:
        continue
    name, prop, tier, rc, nviol, sigs = m.groups()
    meta_path = '/verif/seeded/%s/meta.json' % name
    if os.path.exists(meta_path):
        meta = json.load(open(meta_path))
        meta.setdefault('detected_by', None)
        entry = {'check': './check %s --tier %s' % (prop, tier), 'exit': int(rc), 'violations': int(nviol), 'signatures': sigs.split()}
        if not isinstance(meta['detected_by'], dict):
            meta['detected_by'] = {}
        meta['detected_by'][tier] = entry
        json.dump(meta, open(meta_path, 'w'), indent=1)
PY
rm -rf $tmp
