#!/bin/bash
# run_seed.sh <name> [tier]
# Apply /verif/seeded/<name>/patch.diff (or a /verif/mutants/*.patch given as path) to a scratch
# worktree of /repo's HEAD, run the property's check against it (VERIF_REPO), remove the worktree.
# Evidence and replays of such runs go to a scratch dir, never to /verif/evidence.
name=$1; tier=${2:-quick}
if [ -f "$name" ]; then patch=$(readlink -f "$name"); base=$(basename "$name" .patch); prop=${base:0:3}; name=$base
else dir=/verif/seeded/$name; patch=$dir/patch.diff
  prop=$(/venv/bin/python -c "import json;print(json.load(open('$dir/meta.json'))['breaks_property'])"); fi
prop=${3:-$prop}
wt=/tmp/wt/run_${name}_$$
git -C /repo worktree add -q --detach $wt HEAD || exit 2
cd $wt
if ! git apply "$patch" 2>/dev/null; then
  git apply --3way "$patch" >/dev/null 2>&1 || { echo "SEED $name: patch does not apply to HEAD"; cd /; git -C /repo worktree remove --force $wt; exit 2; }
  git reset -q
fi
out=/tmp/seedrun_${name}_$$; mkdir -p $out
cd /verif && VERIF_REPO=$wt VERIF_EVIDENCE_DIR=$out VERIF_REPLAY_DIR=$out/replays ./check $prop --tier $tier > $out/log 2>&1; rc=$?
nviol=$(grep -c "^VIOLATION" $out/log)
sigs=$(grep -a 'signature=' $out/log | sed 's/ ::.*//; s/.*signature=//' | sort -u | tr '\n' ' ')
echo "SEED $name property=$prop tier=$tier exit=$rc violations=$nviol signatures: $sigs"
[ $rc -eq 3 ] && tail -5 $out/log
cp $out/log /tmp/seedrun_last_$name.log
rm -rf $out; cd /; git -C /repo worktree remove --force $wt
