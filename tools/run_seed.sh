#!/bin/bash
# run_seed.sh <name> [tier]  : apply /verif/seeded/<name>/patch.diff to /repo, run the property's check, undo.
name=$1; tier=${2:-quick}
dir=/verif/seeded/$name
prop=$(/venv/bin/python -c "import json;print(json.load(open('$dir/meta.json'))['breaks_property'])")
cd /repo || exit 2
[ -z "$(git status --porcelain)" ] || { echo "repo not clean"; exit 2; }
git apply --3way "$dir/patch.diff" 2>/dev/null || git apply "$dir/patch.diff" || { echo "SEED $name: patch does not apply to /repo"; exit 2; }
git reset -q
cd /verif && ./check $prop --tier $tier > /tmp/run_seed_$name.log 2>&1; rc=$?
cd /repo && git checkout -q -- . && git clean -fdq -e .hypothesis -e .benchmarks >/dev/null
nviol=$(grep -c "^VIOLATION" /tmp/run_seed_$name.log)
echo "SEED $name property=$prop tier=$tier exit=$rc violations=$nviol $(grep -a -m1 'signature=' /tmp/run_seed_$name.log | cut -c1-200)"
