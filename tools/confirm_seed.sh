#!/bin/bash
# confirm_seed.sh <worktree> <k> <name> <property>
# Confirms a sub-agent's seeded change independently in its scratch worktree:
#   patch applies to the clean tree; suite passes with it; demo fails with it, passes without.
# On success copies it to /verif/seeded/<name>/ with meta.json.
wt=$1; k=$2; name=$3; prop=$4
export HYPOTHESIS_STORAGE_DIRECTORY=/tmp/hyp_$$
cd "$wt" || exit 2
git checkout -q -- . ; git stash list >/dev/null
src="$wt/_seed/$k"
git apply --check "$src/patch.diff" || { echo "CONFIRM $name: patch does not apply"; exit 1; }
/venv/bin/python "$src/demo.py" >/tmp/confirm_$$.clean 2>&1; rc_clean=$?
git apply "$src/patch.diff"
/venv/bin/python "$src/demo.py" >/tmp/confirm_$$.mut 2>&1; rc_mut=$?
suite=$(/verif/tools/repo_test.sh "$wt" 2>&1); suite_rc=$?
suite=$(echo "$suite" | tr '\n' ' ' | cut -c1-300)
failed=""
git checkout -q -- .
echo "CONFIRM $name: demo clean rc=$rc_clean, mutated rc=$rc_mut; suite: $suite"
[ -n "$failed" ] && echo "  second run failures: $failed"
ok=1
[ $rc_clean -eq 0 ] || ok=0
[ $rc_mut -ne 0 ] || ok=0
[ $suite_rc -eq 0 ] || ok=0
if [ $ok -eq 1 ]; then
  dst=/verif/seeded/$name; mkdir -p $dst
  cp "$src/patch.diff" "$src/demo.py" $dst/
  [ -f "$src/notes.md" ] && cp "$src/notes.md" $dst/
  tail -5 /tmp/confirm_$$.mut > $dst/demo_output_with_change.txt
  /venv/bin/python - "$dst" "$prop" "$suite" "$rc_clean" "$rc_mut" <<'PY'
import json, sys, os
dst, prop, suite, rc_clean, rc_mut = sys.argv[1:6]
notes = open(os.path.join(dst, 'notes.md')).read() if os.path.exists(os.path.join(dst, 'notes.md')) else ''
meta = {'breaks_property': prop, 'origin': 'independent sub-agent given only the property text and a scratch worktree',
        'needs_to_manifest': notes.strip()[:1500],
        'confirmed': {'suite_with_change': suite.strip(), 'demo_rc_clean_tree': int(rc_clean), 'demo_rc_with_change': int(rc_mut),
                      'suite_cmd': '/venv/bin/python -m pytest -q -p no:cacheprovider -n 8 --continue-on-collection-errors --timeout=900 (in a scratch worktree)'},
        'detected_by': None}
json.dump(meta, open(os.path.join(dst, 'meta.json'), 'w'), indent=1)
PY
  echo "  kept as /verif/seeded/$name"
else
  echo "  NOT kept"
fi
rm -f /tmp/confirm_$$.*; rm -rf $HYPOTHESIS_STORAGE_DIRECTORY
