#!/usr/bin/env python3
"""Regenerate MANIFEST.json from the table below (python3 tools/gen_manifest.py)."""
import json
import os

HERE = os.path.dirname(os.path.dirname(os.path.abspath(__file__)))

# id -> (engine, technique, category, level text, level note, design ref)
CHECKS = {
    'C08': ('B', 'bounded exhaustive enumeration of (counter, specification list) pairs on the real function vs. the stated formula',
            'model_checking',
            'Every counter (3 types x counts 0..3, an intermediate-level record, errors) against every specification list '
            'up to the length bound (all argparse groupings) is evaluated on the real ignore_warnings_and_count and compared '
            'with the formula of the statement; every string up to length 5/6 over a 6-letter alphabet is fed to the real '
            '-maxwarn parser and compared with a reference grammar. Exhaustive within the bound; the function is pure, so the '
            'small alphabet covers all branch combinations. A CLI layer runs bin/martinize2 entry() over warning mixes x every '
            '-maxwarn form (repeated and grouped flags) and checks the gate against the same formula.',
            'Counts above 3, more than 3 warning types and lists longer than the bound are not explored; the '
            'combination the property leaves unspecified is not generated.', '§4 C08'),
    'C17': ('B', 'bounded exhaustive enumeration of systems x sequences x selectors on the real processors vs. the documented reconciliation; all DSSP strings up to a length bound vs. a run-length reference model',
            'model_checking',
            'Every sequence of <=3 (thorough 4) molecules over {selected, unselected} x {1,2,3 residues} x 3 node-key layouts, every '
            'sequence length 0..total+1 (str and list), three selectors, is run through the real AnnotateResidues and compared with the '
            'documented reconciliation and per-residue placement; the same systems go through AnnotateResidues/AnnotateDSSP(callable) + '
            'AnnotateMartiniSecondaryStructures; convert_dssp_to_martini is run on ALL strings over {H,G,E,C} up to length 10 (thorough: '
            '8 letters to length 7, binary to 18) against a run-length model of the documented helix rules.',
            'Residue order within a molecule is taken as ascending lowest node key; molecules larger than 3 residues and DSSP strings '
            'longer than the bound are outside the claim (the helix rules are local to a run and runs up to 18 are covered).', '§4 C17'),
    'C12': ('A', 'explicit-state breadth-first search over edit histories on real Molecule objects with a lock-step reference model',
            'model_checking',
            'From three initial molecules (empty, dense keys, sparse unordered keys) every enabled operation of a 30-operation alphabet '
            '(single/bulk add and remove incl. existing keys and generator arguments, interactions add/replace/remove incl. invalid ones, '
            'copy, subgraph, edits of the copy, merge_molecule of two donors, Block.to_molecule, MergeAllMolecules, MergeChains) is applied '
            'in every reachable abstract state up to depth 4 (thorough 6); states are de-duplicated on a canonical form that includes the '
            'hidden highest-key cache; after every transition the real objects are compared with a dict/set/list model and the merge clauses '
            'are checked relationally.',
            'Histories longer than the depth bound and molecules with more than ~10 atoms are not explored; implicit node creation through '
            'add_edge on an absent key and in-place mutation of shared parameter lists are outside the alphabet.', '§4 C12'),
    'C02': ('B', 'bounded exhaustive enumeration of molecules (sparse keys x all atom-id permutations x interaction subsets) written by the real ITP writer and read back by an independent reader',
            'model_checking',
            'Every combination of 3 sparse/unordered key sets, every atom-id assignment (none, all n! permutations, partial, sparse), every '
            'subset of size <=3 (thorough 4) of a 13-entry interaction menu (guards, versions, groups, comments, impropers, n-body virtual '
            'sites, empty parameters) and 3 charge/mass variants is written with write_molecule_itp and parsed by mc/readers.py; atoms must be '
            'numbered 1..N in atom-id order with all 7 fields, and the multiset of (section, guard, atoms as node keys, parameters) must equal '
            'the in-memory one; conditionals must be balanced.',
            'Molecules of 4-5 atoms; mass without charge is not generated (ambiguous line for any reader).', '§4 C02'),
    'C03': ('B', 'bounded exhaustive enumeration of molecule sequences x deduplication x sorting through the real writers and deferred writer, independent TOP/ITP/PDB/GRO readers',
            'model_checking',
            'Every sequence of <=3 (thorough 4) molecules over 7 shapes (same topology elsewhere, one parameter differing, permuted atom '
            'ids, permuted node order with position-wise equal attributes, other keys, one atom fewer) x dedup on/off x SortMoleculeAtoms '
            'on/off is named, written (top, itps, pdb, gro) through the real DeferredFileWriter and read back: [ molecules ] equals the '
            'run-length encoding of the coordinate order, every molecule-type file is included exactly once, the k-th PDB/GRO record of every '
            'molecule equals the k-th ITP atom, and molecules sharing a name have byte-identical separately written topologies.',
            'Four-atom molecules, <=4 molecules per system.', '§4 C03'),
    'C16': ('B', 'bounded exhaustive product of field-boundary values and atom-count/bond-pattern boundaries through the real PDB/GRO writers and readers, per-field column-rule oracle',
            'model_checking',
            'Full products of residue numbers {-1,0,1,9999,10000,99999,100000} x name lengths 1..6 (atom and residue) x chain, of 9-10 '
            'coordinate values per axis across and beyond the representable range, and of resid x coordinate x name overflow, on two-molecule '
            'systems, for PDB and GRO; atom counts 1,2,3,12,9998,10000,10001 (thorough 9997..10001, and 99996..99998 with last serial <= 99999) x 1/2/3-molecule splits '
            'x bond patterns (path, stars of degree 1..9, bonds around serial 9999/10000, first-last) for PDB CONECT/TER. Each read-back field '
            'is judged by its own column rule, so a shifted column is a mismatch even where another field overflowed.',
            'Names without blanks; an overflowing field may return any width-long prefix or suffix of its text.', '§4 C16'),
    'C13': ('B', 'bounded exhaustive enumeration of files built from section chunks (every sequence of top-level chunks up to a length bound) plus every listed fault at every applicable line, loaded by the real parsers and compared with the declaration emitted alongside the text',
            'model_checking',
            'A generator emits each file together with its declared content. Every sequence of <=3 (thorough 4) top-level chunks over '
            '{macros, variables, citations, rich block, minimal block, rich link, link in prefix form, the same link in attribute form, '
            'modification} is loaded with read_ff and compared in canonical form: members exactly once and in file order, atoms, attributes, '
            'edges, interactions with parameters/meta/versions, #meta, removal markers, non-edges, patterns, features, molmeta, variables, '
            'macro substitution. Likewise every sequence of <=3 (4) moleculetypes for read_itp (conditionals, #else, virtual_sitesn) and all '
            'orders of three .map molecules (multiplicity and ! weights, several targets) and every sequence of <=3 (4) mappings of a .mapping file '
            '(shorthand, two-residue, longhand and modification mappings; integer weights, reference atoms, extra nodes and edges). Every listed fault (unknown section, undefined '
            'block atom by name / index N+1 / index 0 / edge, duplicate atom, unbalanced braces or conditionals, prefix/order contradiction, '
            'wrong atom count) is injected at every applicable line of every file of <=2 (3) chunks and must be rejected.',
            'The documented grammar features one at a time inside fixed chunks, not all feature combinations; force-field-wide '
            'citations are not compared; one known finding (index 0 in .ff) is reported, not repaired.', '§4 C13'),
    'C06': ('B', 'bounded exhaustive enumeration of all labelled patterns x all graphs up to isomorphism x relabellings x colourings on the real ISMAGS, brute-force backtracking oracle with Aut(pattern) orbits',
            'model_checking',
            'All 75 labelled pattern graphs on <=4 nodes (thorough: all 1099 on <=5) against all 52 graphs on <=5 nodes (thorough 208 on <=6) '
            'under 2-3 relabellings, all two-colourings of nodes (pattern<=3/4 x graph<=4) and of edges, plus a family of larger symmetric '
            'patterns (paths, cycles, stars, K2,n, ladders, double stars, the double spider, all trees <=7/8) against themselves +/- a node or '
            'edge. find_isomorphisms(symmetry=False) must equal the brute-force set I with no duplicate; symmetry=True must give exactly one '
            'member per orbit of I under the brute-force Aut(pattern); largest_common_subgraph must return only maximum common induced '
            'subgraphs and cover every maximum one up to Aut(pattern).',
            'Graphs larger than the bounds are only represented by the structured family; equality functions are colour equalities.', '§4 C06'),
    'C09': ('B', 'bounded exhaustive enumeration of weight tuples x missing-coordinate subsets x centre-weight modes x 72 rigid motions on the real averaging code, exact rational oracle',
            'model_checking',
            'For n=1..4 constituents every weight tuple over {0,1/2,1,2,1/3}, every subset of constituents without coordinates (absent/None), '
            'four centre-weight modes (none, explicit mass, force-field mass, force-field mass switched off), each under the 24 axis rotations '
            'x 3 lattice translations (integer lattice, exact), plus shared atoms, atom-less particles, absent weight tables and every sequence '
            '(<=3) of molecules with differently configured force fields through ONE processor instance. Oracle: fractions.Fraction mean over '
            'positioned constituents, NaN iff their weight sum is zero, bounding box, equivariance.',
            'At most 4 constituents per particle; quick runs the n=4 tuples with <=3 distinct weights (thorough: all 625).', '§4 C09'),
    'C10': ('B', 'bounded exhaustive product of element pairs x distances around the threshold x residue/molecule relations x reference-block knowledge x fudge x mode on the real MakeBonds, conjunction oracle with published radii; small systems with all gap assignments and atom orders',
            'model_checking',
            'Pair level: every ordered pair of {H,C,N,O,S,Se,X} x distance {0.5, 1-1e-6, 1+1e-6, 1.5} x threshold x 4 residue/molecule '
            'relations (incl. two input molecules with identical chain/resname/resid) x 5 kinds of reference-block knowledge x fudge '
            '{0.8,1.0,1.2} x mode {name,distance,both,none} x pre-existing bond. System level: 3-4 atoms in 2-3 residues on a line, all '
            'bonding/non-bonding gap assignments, atom orders, modes. Every pair of every case is judged by the conjunction of the '
            'statement (Bondi radii written into the check); atoms, pre-existing bonds, whole residues and connected residue graphs are '
            'checked on the returned molecules.',
            'Geometries are collinear and at most 4 atoms; the non-bond conjunct is applied where a reference block is consulted.', '§4 C10'),
    'C15': ('B', 'bounded exhaustive product of molecule shapes x residue graphs x selections x node orders x domains x parameter menus on the real ApplyRubberBand, pairwise conjunction oracle with brute-force residue-graph distances',
            'model_checking',
            'Molecules of 3-4 (thorough 5) residues with every listed side-chain mask, residue graph linear / with a gap / cross-linked, line '
            'and L geometry, selections {BB},{SC1},{BB,SC1} (so residues without any selected atom occur), three node orders (plus permutations), '
            'four domain criteria (incl. overlapping regions), and the full product of lower x upper x decay x minimum force x separation '
            '(192 parameter sets); rotations and NaN coordinates on a reduced menu. For every pair of selected atoms the five criteria are '
            'evaluated independently (BFS residue distances, closed-form constant); the bond set, lengths (5 decimals) and constants must match '
            'exactly, one bond per pair, other bonds untouched; NaN gives a warning and no network.',
            'At most 5 residues / 10 beads; spacings avoid thresholds.', '§4 C15'),
    'C18': ('B', 'bounded exhaustive enumeration of contact lists (every subset of directed residue pairs) x system shapes x cut-off windows x separations through the real GoPipeline, independent iff-oracle',
            'model_checking',
            'Systems of 3-4 residues in 1-2 chains/molecules (with/without side chains, disulfide-like cross-link, gapped input numbering); '
            'EVERY subset of directed residue pairs as the contact list (64 / 4096 lists), both list orders, contacts naming absent residues '
            'or chains, three cut-off windows, separation 0-3, custom backbone / site / molecule names. The real GoPipeline is run and compared: '
            'one co-located, zero-mass, zero-charge site per backbone particle with a key above all others, virtual_sitesn [site, bb] 1, identity '
            'copied, unique type <molecule>_<resid>; a pair potential iff listed both ways and graph distance > separation and low<d<high, with '
            'sigma=d/2^(1/6) and the requested epsilon, exclusions exactly between those backbone particles.',
            'Quick: 4-residue systems with two windows and separations {1,2}; lists with repeated entries are outside the property.', '§4 C18'),
    'C19': ('B', 'bounded exhaustive enumeration of specification strings x systems x request lists on the real AnnotateMutMod against an independent parser and residue predicate; requests carried through the real RepairGraph on shipped charmm blocks',
            'model_checking',
            'All 100-odd specification strings from the part menus (chain, name incl. nter/cter and a name ending in a digit, number, with and '
            'without #) and all ordered pairs of a 12-string menu, as mutations and as modifications, plus the empty list, none and unknown '
            'targets, on every single molecule and (quick: a covering set of) ordered pairs of 8 residue-graph shapes (paths up and down, star, '
            'ring, isolated, non-protein, insertion codes, protein-on-lipid). Marks are compared atom by atom with an independent parser + '
            'predicate; each request that matches nothing in the whole system must produce its own warning; unknown targets must raise. '
            'Repair layer: 84 tripeptides of charmm blocks with mutation / terminal-modification requests through AnnotateMutMod + RepairGraph: '
            'the named residue ends up with exactly the requested atoms and name, nothing leaks to other residues or into the force field.',
            'Systems of <=2 molecules x <=4 residues; resid together with nter/cter, empty specifications and unmatched+unknown requests are not generated.', '§4 C19'),
    'C04': ('C', 'deviation-bounded exhaustive exploration of residue presentations (0, 1, 2 deviations from every shipped block) through the real RepairGraph, absolute embedding oracle',
            'model_checking',
            'Every block of amber (quick) and additionally gromos, the charmm amino-acid blocks and a seed-rotated slice of charmm small '
            'molecules (thorough) is presented canonically and in EVERY presentation one elementary deviation away (all name swaps, all order '
            'swaps, every rename, every non-cut deletion, every attachment of H/O/C to a heavy atom; all name permutations for blocks of <= 7 '
            'atoms); thorough adds all pairs of deviations for amber blocks of <= 10-12 atoms and the interacting pairs for larger ones. After '
            'the real RepairGraph the recognised atoms must carry unique canonical names forming an injective, element-preserving, induced-bond-'
            'preserving map onto the block, every block atom must be present, and the number of unrecognised atoms must equal the number of '
            'attached atoms (the largest possible match is the whole block by construction).',
            'At most 2 deviations from a shipped block; elements follow the library\'s first-letter rule.', '§4 C04'),
    'C14': ('B', 'bounded exhaustive enumeration of unexplained-atom placements x modification sets on the real CanonicalizeModifications, brute-force exact-cover oracle',
            'model_checking',
            'A toy force field with a 4-atom residue block and six modifications (single and double added atoms, two sub-pattern pairs, two on '
            'different anchors, one spanning two residues, one with a replace); molecules of 1-2 (thorough 3) residues with EVERY placement of '
            '<=3/2 unexplained atoms (elements H, O, S and a foreign P; attached to every atom, chained, bridging) under the full family and its '
            '5-subsets (thorough: every subset). All exact covers by induced placements are enumerated by brute force; the real result must be '
            'one of them (names, labels on all atoms of the touched residues accumulated over groups, replacements) or, if none exists, the atoms '
            'must be gone with one unknown-input warning per group.',
            'Molecules are given in the post-RepairGraph state; any valid exact cover is accepted.', '§4 C14'),
    'C01': ('B', 'bounded exhaustive enumeration of residue sequences x connectivities x node-key numberings x resid schemes x mapping sets on the real do_mapping, brute-force reference mapper',
            'model_checking',
            'Two toy force fields and a menu of mapping sets covering the shapes of the quantifier (one-to-one, many-to-one, shared atom, zero-'
            'weight atoms incl. a bead built only from one, a bead built from no atom, a two-residue mapping, overlapping sets). Every residue '
            'sequence of length 1..3 (thorough 4) over two residue types, linear / star / ring / cross-linked, under ALL permutations of the residue '
            'order in node-key space and three within-residue key layouts (forward, backward, interleaved), three resid schemes, optional unmapped '
            'heavy atom or hydrogen, stash on/off. The reference mapper enumerates placements by brute force and predicts block copies in '
            'lowest-key order, consecutive residue numbers, stashed numbers, constituents and weights, inter-placement edges, re-indexed '
            'interactions and the two warnings.',
            'Modification mappings are not in the menu; residues have 2-3 atoms.', '§4 C01'),
    'C05': ('B', 'bounded exhaustive enumeration of a link feature grammar (every link alone and every ordered pair) x molecules through the real parser and DoLinks, brute-force placement reference model; match_order compared cell by cell with the documented matrix',
            'model_checking',
            'Links are generated as structured specifications (all order prefix kinds on 2-, 3- and 4-atom links, equality / choice / not() '
            'conditions, required and forbidden edges, one to three non-edges, patterns, molecule meta, plain / dist() / angle() / versioned '
            'payloads, removals, attribute replacement, node deletion), rendered to .ff text for the real parser and DoLinks, and interpreted '
            'independently by a brute-force model: all injective assignments satisfying predicates, induced edges, the documented order matrix, '
            'non-edges, patterns and molmeta; links applied in order with add-or-replace on (type, atoms, version). Every link alone and every '
            'ordered pair of links on molecules of 3-4 residues with four numbering schemes and four connectivities; the complete interaction '
            'table, attributes and removed atoms must be equal. match_order is checked on all 15x15 order pairs x 16 residue-number pairs.',
            'Replace of an attribute the same link matches on, non-edges on non-zero-order anchors and removals of a link\'s own additions are '
            'outside the grammar; links alone and in ordered pairs (thorough: ordered triples on three molecules), not quadruples.', '§4 C05'),
    'C11': ('C', 'deviation-bounded exhaustive exploration of input presentations (every 1-deviation: atom transpositions, hydrogen renamings, exact rigid motions, hash seeds) through bin/martinize2\'s own entry(), differential oracle on canonical ITP/TOP/PDB records',
            'model_checking',
            'For each base input (tri-alanine and 4-residue peptides cut from the shipped test structures incl. HIS, TRP/CYS, MET and a '
            'disulfide; thorough: 12 inputs covering all 20 residue types) and option set (default, -elastic, -p backbone, -ss, -nt, -cys none, '
            '-ff martini22) the unmodified presentation and EVERY presentation one deviation away are run through the script\'s entry(): each '
            'adjacent transposition of atoms within each residue, each hydrogen renamed and all at once, each of the 24 axis rotations with a '
            'decimal translation applied to the PDB text, and each hash seed of the seed set in its own interpreter. Parsed ITP atoms and '
            'interactions, the .top and the coordinates (after undoing the motion) must equal those of the reference presentation. The in-process '
            'driver is bound to real sub-process runs for every base input.',
            'Up to 2 deviations (thorough) from the given presentation; 24 axis rotations only; a finite hash-seed set; 3-6 residue inputs.', '§4 C11'),
    'C07': ('A+D', 'explicit-state BFS over deferred-writer histories with a dict file-system model; exhaustive crash-point/torn-write enumeration of every finalisation; audit-hook monitor over all library writers; full product of a CLI run alphabet through the script\'s own entry() bound to real sub-processes',
            'model_checking',
            'Four layers. (1) every enabled operation (open w/a/r+/wb incl. re-opens, files appearing from outside, write, close) in every '
            'reachable abstract state up to depth 3 (thorough 4) from 6 initial directories, real DeferredFileWriter vs. a dict model, '
            'directory compared byte for byte after every step. (2) every history of <=2 (3) opens followed by write(): every file-system '
            'step x {before, after, torn-0, torn-half} x {tmp on same fs, rename->EXDEV}; recovery invariant on the directory left behind. '
            '(3) every library writer with default arguments under a sys.addaudithook monitor: nothing outside the temporary directory is '
            'touched before write(). (4) the full product of inputs x warning switches x -maxwarn forms x outputs x -write-graph through '
            'bin/martinize2 entry() in pre-populated directories; exit status and directory against the C08 formula; a covering subset '
            'repeated as real sub-processes that must agree with the in-process runs.',
            'Crash points are Python-visible file operations and torn copies (no kernel-level reordering); destinations that look like '
            'backup names and mixed-mode re-opens are not generated; the CLI alphabet uses a 5-residue input and three warning sources.', '§4 C07'),
}

NOT_YET = 'check not built yet in this session (planned, see DESIGN.md §4); no claim is made'


# layers added after the first version of a check (appended to the level text); notes that replace the original note
ADDED = {
    'C01': ' Added: a modification-mapping layer (every subset of residues modified, the extra atom listed last, first, or with its '
           'residue; particles created by the modification, attribute replacement, consecutive renumbering after a created particle), '
           'reference atoms (incl. node key 0), weight normalisation, a mapping spanning reference atoms of two residues.',
    'C02': ' Added: the same molecule object written again after its atom ids were changed in place.',
    'C03': ' Added: shapes that differ only by a trailing interaction or by interleaved runs of one type; one NameMolType instance over two '
           'systems; chains run through bin/martinize2 with -sep / -merge.',
    'C04': ' Added: residues for which a mutation and/or modification was requested (shared with the C19 repair layer), two requests on one residue.',
    'C05': ' Added: interaction metadata compared; removals conditioned on metadata; the documented order table as its own layer.',
    'C06': ' Added: one matcher object answering several queries; a symmetry cache shared between matchers over differently coloured patterns; '
           'spider graphs up to 10 nodes under several numberings.',
    'C07': ' Added: CLI runs judged as the first action of a newly forked process (incl. -write-graph with unwaived warnings); a force-field '
           'extension whose link warning has an independently known count (one per match).',
    'C08': ' Added: every history up to depth 4 (thorough 5) over {log a record through the typed adapter or a plain logger, at WARNING / 35 / '
           'ERROR / INFO; evaluate one of five allowance lists} on ONE CountingHandler, every evaluation compared with the formula on the '
           'records logged so far.',
    'C09': ' Added (props/c09_e2e.py): from mapping declarations (block mappings, modification mappings over one and two residues, mapping-file '
           'text read in rounds with re-built force fields) through do_mapping + DoAverageBead; and RepairGraph -> AttachMass -> DoMapping -> '
           'DoAverageBead on shipped charmm/martini3001 data with residues reduced to 1..n input atoms: particles sit at the weighted mean of '
           'the constituents that were in the input and are undefined when none was.',
    'C10': ' Added: unknown residues and radius-less atoms at every position of 4-atom systems; rectangles; sequences of calls in one process '
           'with force fields defining the same block names differently and with a changing fudge factor.',
    'C11': ' Added: a two-chain input with -merge (presentations and hash seeds).',
    'C12': ' Added: citations in the abstract state; molecules and donors numbered from 0.',
    'C13': ' Added: .mapping files (sequences and faults); two files read into one force field; [ edges ] in prefix and attribute spelling; '
           '.map rounds in one process with re-built force fields of the same names.',
    'C14': ' Added: unexplained atoms bonded to nothing; AnnotateMutMod -> RepairGraph -> CanonicalizeModifications on molecules whose chains '
           'reuse residue numbers, with a request on one residue and an unexplained atom on another.',
    'C15': ' Added: one ApplyRubberBand instance over every sequence of 2-3 molecules, with bond type and minimum separation given explicitly or '
           'taken from each molecule\'s own force-field variables.',
    'C16': ' Added: rewrite after in-place atom-id change; sequences of GRO files of different column widths / with and without velocities read '
           'in one process.',
    'C17': ' Added: molecules whose particles lack a residue name; every history up to depth 3 (thorough 4) over {annotate exact / one-element / '
           'wrong length, iterate residues, four in-place edits of residue-defining attributes}, the last annotation compared with the same '
           'annotation on a brand-new molecule of equal content.',
    'C18': ' Added: atom-type entries; sequences of runs on the module-level pipeline object; contact-map FILES (five numbering schemes x contact '
           'subsets x OV/rCSU flags x noise lines) through read_go_map.',
    'C19': ' Added: two rounds of requests on a system, its copy and its subgraphs; extra atoms on residues no request names; mutation plus '
           'terminus modification on one residue; two modification requests on one residue.',
}
# layers added in the third phase (program wiring, whole-object state, more input classes)
ADDED2 = {
    'C01': ' Further: a modification mapping with a context atom in the next residue; one mapping collection over sequences of molecules; '
           'block and kept attributes; the martinize2 topology layer (props/cli_topology.py: chains x chain order x numbering x -sep / -merge / '
           '-resid input / -elastic).',
    'C02': ' Further: named and deduplicated systems (layer shared with C03); the martinize2 topology layer (record k of the coordinate file = '
           'atom k of the ITP its type name points at, residue number included).',
    'C03': ' Further: the martinize2 topology layer incl. residue numbers, chain order and -resid input.',
    'C04': ' Further: systems of known and unknown molecules through RepairGraph(delete_unknown=True).run_system.',
    'C05': ' Further: one force field and one DoLinks instance over sequences of molecules; side-chain-less residues; non-edge partners that '
           're-specify a header attribute; a vacuity guard (every link of the grammar fits somewhere).',
    'C07': ' Further: the abstract state holds every instance attribute of the writer; exploration also starts after a discarded / finalised attempt.',
    'C08': ' Further: records logged through the typed adapter without a type; case-sensitive type names in the parser alphabet.',
    'C09': ' Further: positions written by martinize2 (inner residues, shipped mapping files read with an own parser, element masses; also with '
           'debug dumps taken before the mapping); new-style mapping text with explicit weights 0 / 2 / 3.',
    'C10': ' Further: martinize2 -bonds-from / -bonds-fudge through -write-graph.',
    'C11': ' Further: an input with alternate conformations A/B in either order; -bonds-from name and -bonds-fudge 1.0 (under -bonds-from name '
           'without the renamings: there the names are the connectivity). Thorough: every option set on six inputs, default and -elastic on '
           'the other windows, pairs of deviations on four inputs (about 15 000 program runs, 17 hash seeds).',
    'C12': ' Further: System.copy; subgraph with repeated keys; every instance attribute and the sharing between copy and source in the abstract state.',
    'C13': ' Further: contradiction faults with every other explicit order on an atom mentioned once; a .mapping with extra nodes, two identifiers '
           'and bare names.',
    'C14': ' Further: unexplained atoms named like template atoms; two requests on one residue through the pipeline.',
    'C15': ' Further: martinize2 elastic-network options (props/c15_cli.py), incl. merged chains and residues told apart by insertion codes.',
    'C16': ' Further: atom ids numbered from 0; every combination of the switches of write_pdb.',
    'C17': ' Further: martinize2 -ss (metamorphic relations between equivalent sequences, refusal of other lengths); the DSSP route with mdtraj '
           'under within-sequence atom orders.',
    'C18': ' Further: martinize2 -go (props/c18_cli.py): generated contact-map files and the internally computed map, cut-offs incl. zeros, two '
           'chains; a molecule name that is a prefix of a bead type in the quick tier.',
    'C19': ' Further: one AnnotateMutMod instance over two systems; martinize2 -mutate / -nter / -cter / -nt on 1-3 chains (props/c19_cli.py).',
}

# session 4: fifth wave of seeded changes, deeper thorough bounds
ADDED3 = {
    'C01': ' Session 4: the weights recorded by every overlaid particle of a modified residue, incl. modification mappings that state another '
           'weight for their anchor atom than the block mapping.',
    'C05': ' Session 4: thorough also applies every ordered TRIPLE of the grammar links (3 x 56^3 link lists on a linear, a star and a ring '
           'molecule); molecule sequences contain molecules with the node keys of an earlier one at other coordinates.',
    'C06': ' Session 4: balanced trees of 13 and 15 nodes and two joined 3-stars under 3 (thorough 8) node numberings.',
    'C09': ' Session 4: the pipeline layer judges by the documented element masses (not the attribute the program attached) and has an atom of '
           'an element without documented mass inside a particle.',
    'C10': ' Session 4: thorough adds two five-atom layouts in three residues under all 120 input orders.',
    'C11': ' Session 4: the fragment presented as a GRO file with -ignh (hydrogens named letter-first or number-first, orders; no motions, a '
           'translation would re-round the 0.01 A coordinates) and -ignh on PDB input.',
    'C13': ' Session 4: thorough enumerates every file of up to SIX top-level sections (.ff: 1.1 million files; .itp 3^6; .mapping 5^6) and '
           'injects every fault at every line of every file of up to four sections. Not claimed: which value wins when a block atom line '
           'states one key both in a column and in its {...} attributes (fixed neither by the statement nor by the documentation).',
    'C16': ' Session 4: systems in which only some molecules carry velocities (every pattern over 1-3 molecules); two systems written deferred '
           'to two paths (same name in two directories, two names in one directory, a name that is a prefix of the other, nested directory) '
           'and flushed once or twice - each path holds its own system.',
}

NOTES = {
    'C01': 'Residues have 2-3 atoms; modification mappings are single-residue in C01 (two-residue ones are exercised in C09).',
}


def main():
    props = [json.loads(l) for l in open(os.path.join(HERE, 'properties.jsonl'))]
    checks, not_applicable = [], []
    for p in props:
        pid = p['id']
        if pid not in CHECKS:
            not_applicable.append({'property_id': pid, 'reason': NOT_YET})
            continue
        engine, technique, category, text, note, ref = CHECKS[pid]
        text += ADDED.get(pid, '') + ADDED2.get(pid, '') + ADDED3.get(pid, '')
        note = NOTES.get(pid, note)
        checks.append({
            'property_id': pid,
            'quick_cmd': './check %s --tier quick' % pid,
            'thorough_cmd': './check %s --tier thorough' % pid,
            'evidence_file': '/verif/evidence/%s.json' % pid,
            'replay_cmd_template': './check %s --replay {path}' % pid,
            'engine': engine,
            'level_claimed': {'category': category, 'text': text, 'design_ref': ref},
            'level_note': note,
            'technique': technique,
        })
    manifest = {
        'version': 1,
        'setup_cmd': 'true',
        'hooks': {
            'guard': 'VERMOUTH_VERIF',
            'enable': 'no source hooks: every seam is patched from the harness process (module attributes, audit hooks)',
            'baseline_off_cmd': 'cd /repo && /venv/bin/python -m pytest -ra -q -p no:cacheprovider --timeout=900 --continue-on-collection-errors',
            'source_commits': [],
            'add_only': True,
        },
        'engines': [
            {'name': 'A', 'path': 'mc/', 'kind_free_text': 'explicit-state BFS over operation histories on the real objects, lock-step reference model'},
            {'name': 'B', 'path': 'mc/', 'kind_free_text': 'bounded exhaustive enumeration of inputs/configurations on the real code vs. reference model'},
            {'name': 'C', 'path': 'mc/', 'kind_free_text': 'deviation-bounded presentation explorer (0,1,2 deviations from a canonical presentation)'},
            {'name': 'D', 'path': 'mc/', 'kind_free_text': 'crash-point / fault enumeration over a recorded file-operation history'},
        ],
        'checks': checks,
        'not_applicable': not_applicable,
        'notes': 'All checks: ./check <ID> --tier quick|thorough ; VERIF_REPO=<dir> examines another working tree; '
                 'known findings in known_findings.json; replay artefacts under replays/<ID>/.',
    }
    for eng in manifest['engines']:
        eng['serves_properties'] = [c['property_id'] for c in checks if c['engine'] == eng['name']]
    with open(os.path.join(HERE, 'MANIFEST.json'), 'w') as handle:
        json.dump(manifest, handle, indent=1)
        handle.write('\n')


if __name__ == '__main__':
    main()
