#!/bin/bash
# confirm_wave.sh "C17 1 C17_a" "C17 2 C17_b" ...   (worktree-id k name)
for s in "$@"; do set -- $s; /verif/tools/confirm_seed.sh /tmp/wt/$1 $2 $3 ${1:0:3}; done
