#!/bin/bash
# all_thorough.sh [ids...] : every registered thorough check in sequence; evidence and replays go to a scratch dir
cd /verif
ids="$@"
[ -z "$ids" ] && ids=$(/venv/bin/python -c "import json; print(' '.join(c['property_id'] for c in json.load(open('MANIFEST.json'))['checks']))")
for id in $ids; do
  start=$(date +%s)
  VERIF_EVIDENCE_DIR=/tmp/ev_thorough VERIF_REPLAY_DIR=/tmp/ev_thorough/replays ./check $id --tier thorough > /tmp/ev_thorough_$id.log 2>&1
  rc=$?
  echo "$id exit=$rc wall=$(( $(date +%s) - start ))s violations=$(grep -c '^VIOLATION' /tmp/ev_thorough_$id.log) known=$(grep -c '^KNOWN' /tmp/ev_thorough_$id.log) $(grep -a ' tier=thorough ' /tmp/ev_thorough_$id.log | cut -c1-120)"
done
