"""
C03 — coordinates, molecule types and system topology agree atom for atom.

Enumerated: every sequence of <= M molecules over a library of shapes (same topology in another
chain / place, one parameter differing, permuted atom ids, permuted node order with position-wise
equal attributes, other node keys, one atom fewer), x deduplication on/off x SortMoleculeAtoms on/off.
Each system goes through NameMolType -> write_gmx_topology + write_pdb + write_gro -> the real
DeferredFileWriter.write() into a private directory.  Oracle: independent TOP / ITP / PDB / GRO
readers (mc/readers.py).
"""
import io
import itertools
import os
import shutil
import tempfile

from mc import common, readers
from mc.common import Acc

RULE = ("every sequence of <= M shapes x dedup x sort; distinct = distinct (sequence, dedup, sort); non-trivial = "
        ">= 2 molecules of which two share a molecule type name, or a shape whose atom-id order differs from node order")
ASSUMPTIONS = ["names are short enough for the PDB columns; residue numbers < 10000",
               "GRO is checked like PDB (it is a coordinate file written for the same system)"]

SHAPES = ['P', 'P2', 'Q', 'R', 'N', 'K', 'S', 'X', 'Y']


def make(shape, index):
    import numpy as np
    import vermouth
    mol = vermouth.molecule.Molecule(nrexcl=1)
    names = ['BB', 'SC1', 'BB', 'SC2']
    resids = [1, 1, 2, 2]
    resnames = ['ALA', 'ALA', 'LYS', 'LYS']
    keys = [0, 1, 2, 3]
    atomids = [1, 2, 3, 4]
    chain = 'A'
    shift = 0.0
    bond_param = '0.25'
    natoms = 4
    if shape == 'P2':
        chain, shift = 'B', 1.0
    elif shape == 'Q':
        bond_param = '0.27'
    elif shape == 'R':
        atomids = [3, 4, 1, 2]
    elif shape == 'N':
        keys = [1, 0, 2, 3]        # attributes equal position by position, keys permuted
    elif shape == 'K':
        keys = [10, 11, 12, 13]
    elif shape == 'S':
        natoms = 3
    for pos in range(natoms):
        mol.add_node(keys[pos], atomname=names[pos], resname=resnames[pos], resid=resids[pos], chain=chain,
                     atype='T%d' % pos, charge_group=pos + 1, atomid=atomids[pos], charge=0.0,
                     position=np.array([0.1 * pos + shift, 0.05 * index, 0.3]))
    base = sorted(keys[:natoms])
    # interactions are expressed on node KEYS (so shape N differs from P in what they mean)
    mol.add_edge(base[0], base[1])
    mol.add_edge(base[1], base[2])
    mol.add_interaction('bonds', (base[0], base[1]), ['1', bond_param, '1000'])
    mol.add_interaction('bonds', (base[1], base[2]), ['1', '0.35', '800'])
    if natoms == 4:
        mol.add_edge(base[2], base[3])
        mol.add_interaction('angles', (base[0], base[1], base[3]), ['2', '120', '50'])
    if shape == 'X':
        # like P, plus one trailing interaction in an EXISTING category (adds no edge, no new category)
        mol.add_interaction('bonds', (base[0], base[2]), ['1', '0.5', '100'], meta={'edge': False})
    if shape == 'Y':
        # like P, plus an interaction in a new category
        mol.add_interaction('exclusions', (base[0], base[3]), [])
    return mol


def itp_body(mol, moltype):
    from vermouth.gmx.itp import write_molecule_itp
    handle = io.StringIO()
    write_molecule_itp(mol, handle, moltype=moltype)
    return handle.getvalue()


def rle(names):
    out = []
    for name in names:
        if out and out[-1][0] == name:
            out[-1][1] += 1
        else:
            out.append([name, 1])
    return [tuple(x) for x in out]


def check(seq, dedup, sort, acc, base, sample=False):
    import vermouth
    from vermouth.file_writer import DeferredFileWriter
    from vermouth.gmx.topology import write_gmx_topology
    from vermouth.gmx.gro import write_gro
    from vermouth.pdb.pdb import write_pdb
    case = {'shapes': list(seq), 'deduplicate': dedup, 'sort': sort}
    work = tempfile.mkdtemp(dir=base)
    old = os.getcwd()
    writer = DeferredFileWriter()
    writer.close()
    problems = []
    try:
        os.chdir(work)
        system = vermouth.System()
        system.meta['header'] = ['verification harness']
        for idx, shape in enumerate(seq):
            system.add_molecule(make(shape, idx))
        try:
            if sort:
                vermouth.SortMoleculeAtoms().run_system(system)
            vermouth.NameMolType(deduplicate=dedup).run_system(system)
            write_gmx_topology(system, 'topol.top', itp_paths=[])
            write_pdb(system, 'out.pdb')
            write_gro(system, 'out.gro')
            writer.write()
        except Exception as err:   # pylint: disable=broad-except
            acc.case(outcome='exc')
            acc.violation('c03:exception', 'writing raised %r' % (err,), case)
            return
        names = [mol.meta['moltype'] for mol in system.molecules]
        top = readers.read_top(open('topol.top').read())
        pdb = readers.read_pdb(open('out.pdb').read())
        gro = readers.read_gro(open('out.gro').read())
        itps = {}
        for name in set(names):
            path = '%s.itp' % name
            if not os.path.exists(path):
                problems.append(('c03:itp-missing', 'no %s written for a molecule named %s' % (path, name)))
                continue
            itps[name] = readers.read_itp(open(path).read())
            if itps[name]['moltype'] != name:
                problems.append(('c03:itp-wrong-name', '%s declares moleculetype %r' % (path, itps[name]['moltype'])))
        # (1) [ molecules ] in coordinate order with correct counts
        if top['molecules'] != rle(names):
            problems.append(('c03:molecules-section', '[ molecules ] is %r, coordinate order is %r' % (top['molecules'], rle(names))))
        # (2) each molecule-type file included exactly once
        incl = [i for i in top['includes'] if i != 'martini.itp']
        for name in sorted(set(names)):
            count = incl.count('%s.itp' % name)
            if count != 1:
                later = names.index(name) != len(names) - 1 - names[::-1].index(name) and len(rle([n for n in names])) > len(set(names))
                problems.append(('c03:include-count', '#include "%s.itp" appears %d times in the .top (%r)' % (name, count, incl)))
                break
        # (3) k-th coordinate record == k-th ITP atom
        bounds = [0] + pdb['ters']
        if len(pdb['ters']) != len(names):
            problems.append(('c03:ter-count', '%d TER records for %d molecules' % (len(pdb['ters']), len(names))))
        else:
            gro_offset = 0
            for midx, name in enumerate(names):
                records = pdb['atoms'][bounds[midx]:bounds[midx + 1]]
                atoms = itps.get(name, {}).get('atoms', [])
                grecs = gro['atoms'][gro_offset:gro_offset + len(records)]
                gro_offset += len(records)
                if len(records) != len(atoms):
                    problems.append(('c03:atom-count', 'molecule %d (%s): %d coordinate records, %d ITP atoms' % (
                        midx, name, len(records), len(atoms))))
                    break
                for k, (rec, atom) in enumerate(zip(records, atoms)):
                    got = (rec['atomname'].strip(), rec['resname'].strip(), rec['resid'].strip())
                    want = (atom['atomname'], atom['resname'], atom['resid'])
                    if got != want:
                        problems.append(('c03:pdb-itp-order', 'molecule %d (%s): coordinate record %d is %r, ITP atom %d is %r' % (
                            midx, name, k + 1, got, k + 1, want)))
                        break
                else:
                    for k, (rec, atom) in enumerate(zip(grecs, atoms)):
                        got = (rec['atomname'].strip(), rec['resname'].strip(), rec['resid'].strip())
                        want = (atom['atomname'], atom['resname'], atom['resid'])
                        if got != want:
                            problems.append(('c03:gro-itp-order', 'molecule %d (%s): GRO record %d is %r, ITP atom %d is %r' % (
                                midx, name, k + 1, got, k + 1, want)))
                            break
                    continue
                break
        # (4) same name only if the written topologies are identical
        by_name = {}
        for mol, name in zip(system.molecules, names):
            by_name.setdefault(name, []).append(mol)
        for name, mols in by_name.items():
            bodies = {itp_body(mol, name) for mol in mols}
            if len(bodies) > 1:
                problems.append(('c03:shared-name-different-topology',
                                 '%d molecules named %s have %d different written topologies' % (len(mols), name, len(bodies))))
                break
        shared = len(set(names)) < len(names)
        acc.case(nontrivial=(len(seq) >= 2 and shared) or any(s in ('R', 'N') for s in seq),
                 outcome=(tuple(rle(names)), len(incl)),
                 sample=dict(case, moltypes=names, top_molecules=top['molecules'], includes=incl) if sample else None)
    finally:
        os.chdir(old)
        writer.close()
        shutil.rmtree(work, ignore_errors=True)
    for sig, desc in problems[:2]:
        acc.violation(sig, desc, case)


# ----------------------------------------------------------------------------- the same agreement through the real CLI

def cli_input(chains):
    """A multi-chain PDB built from ala5.pdb: 'P' = the five residues, 'S' = its first three residues, 'Q' = residues 2-5;
    every chain is translated so that chains do not overlap."""
    src = [l.rstrip('\n').ljust(80) for l in open(os.path.join(common.REPO, 'vermouth', 'tests', 'data', 'ala5.pdb')) if l.startswith('ATOM')]
    lines = []
    serial = 1
    for cidx, kind in enumerate(chains):
        keep = {'P': range(1, 6), 'S': range(1, 4), 'Q': range(2, 6)}[kind]
        for line in src:
            if int(line[22:26]) not in keep:
                continue
            x, y, z = float(line[30:38]), float(line[38:46]), float(line[46:54])
            lines.append('%s%5d %s%s%s%8.3f%8.3f%8.3f%s' % (line[:6], serial, line[12:21], 'ABCDEFG'[cidx], line[22:30],
                                                          x, y + 30.0 * cidx, z + 10.0 * cidx, line[54:]))
            serial += 1
        lines.append('TER')
    return '\n'.join(lines) + '\nEND\n'


def check_cli(chains, extra, acc, base):
    from mc import cli
    case = {'layer': 'cli', 'chains': list(chains), 'options': list(extra)}
    work = tempfile.mkdtemp(dir=base)
    with open(os.path.join(work, 'in.pdb'), 'w') as handle:
        handle.write(cli_input(chains))
    res = cli.run_inprocess(['-f', 'in.pdb', '-x', 'cg.pdb', '-o', 'topol.top'] + list(extra), work)
    if res['exit'] != 0:
        acc.case(outcome=('cli', 'exit', res['exit']))
        acc.violation('c03:cli-run-failed', 'martinize2 %r on chains %r exits %r\n%s' % (extra, chains, res['exit'], res['stderr'][-500:]), case)
        shutil.rmtree(work, ignore_errors=True)
        return
    problems = []
    top = readers.read_top(open(os.path.join(work, 'topol.top')).read())
    pdb = readers.read_pdb(open(os.path.join(work, 'cg.pdb')).read())
    names = [n for n, count in top['molecules'] for _ in range(count)]
    incl = [i for i in top['includes'] if i != 'martini.itp']
    itps = {}
    for name in set(names):
        path = os.path.join(work, '%s.itp' % name)
        if not os.path.exists(path):
            problems.append(('c03:itp-missing', 'no %s.itp written' % name))
        else:
            itps[name] = readers.read_itp(open(path).read())
    for name in sorted(set(names)):
        if incl.count('%s.itp' % name) != 1:
            problems.append(('c03:include-count', '#include "%s.itp" appears %d times (%r)' % (name, incl.count('%s.itp' % name), incl)))
            break
    if [t for t in top['molecules'] if t[1] < 1] or any(a[0] == b[0] for a, b in zip(top['molecules'], top['molecules'][1:])):
        problems.append(('c03:molecules-section', '[ molecules ] is not a run-length encoding: %r' % (top['molecules'],)))
    bounds = [0] + pdb['ters']
    merged = any(opt == '-merge' for opt in extra)
    expected_mols = len(chains) if not merged else None
    if expected_mols is not None and len(names) != expected_mols:
        problems.append(('c03:molecules-section', '%d molecules listed for %d chains' % (len(names), expected_mols)))
    if not problems:
        if len(pdb['ters']) != len(names):
            problems.append(('c03:ter-count', '%d TER records for %d molecules' % (len(pdb['ters']), len(names))))
        else:
            for midx, name in enumerate(names):
                records = pdb['atoms'][bounds[midx]:bounds[midx + 1]]
                atoms = itps[name]['atoms']
                if len(records) != len(atoms):
                    problems.append(('c03:atom-count', 'molecule %d (%s): %d coordinate records, %d ITP atoms' % (midx, name, len(records), len(atoms))))
                    break
                bad = [(k + 1, (r['atomname'].strip(), r['resname'].strip()), (a['atomname'], a['resname']))
                       for k, (r, a) in enumerate(zip(records, atoms)) if (r['atomname'].strip(), r['resname'].strip()) != (a['atomname'], a['resname'])]
                if bad:
                    problems.append(('c03:pdb-itp-order', 'molecule %d (%s): records differ from ITP atoms: %r' % (midx, name, bad[:2])))
                    break
            # same name only for the same kind of chain
            if not merged and not problems:
                kind_of = {}
                for name, kind in zip(names, chains):
                    if kind_of.setdefault(name, kind) != kind:
                        problems.append(('c03:shared-name-different-topology', 'chains of kind %s and %s share the molecule type %s' % (kind_of[name], kind, name)))
                        break
    acc.case(nontrivial=len(set(names)) < len(names), outcome=('cli', tuple(top['molecules'])),
             sample=dict(case, molecules=top['molecules'], includes=incl) if acc.states % 5 == 0 else None)
    shutil.rmtree(work, ignore_errors=True)
    for sig, desc in problems[:1]:
        acc.violation(sig, desc, case)


def cli_work(task):
    common.bind_repo()
    acc = Acc()
    base = tempfile.mkdtemp(prefix='verif_c03c_', dir='/dev/shm' if os.path.isdir('/dev/shm') else None)
    try:
        for chains, extra in task:
            check_cli(chains, extra, acc, base)
    finally:
        shutil.rmtree(base, ignore_errors=True)
    return acc


def check_instance_reuse(seq1, seq2, acc):
    """ONE NameMolType instance names two systems in turn; the second naming is judged on its own."""
    import vermouth
    case = {'layer': 'reuse', 'first': list(seq1), 'second': list(seq2)}
    processor = vermouth.NameMolType(deduplicate=True)
    systems = []
    for seq in (seq1, seq2):
        system = vermouth.System()
        for idx, shape in enumerate(seq):
            system.add_molecule(make(shape, idx))
        systems.append(system)
    try:
        for system in systems:
            processor.run_system(system)
    except Exception as err:   # pylint: disable=broad-except
        acc.case(outcome='exc')
        acc.violation('c03:exception', 'naming raised %r' % (err,), case)
        return
    system = systems[1]
    names = [mol.meta['moltype'] for mol in system.molecules]
    by_name = {}
    for mol, name in zip(system.molecules, names):
        by_name.setdefault(name, []).append(mol)
    acc.case(nontrivial=len(set(names)) < len(names), outcome=('reuse', tuple(names)),
             sample=dict(case, names=names) if acc.states % 101 == 0 else None)
    for name, mols in by_name.items():
        if len({itp_body(mol, name) for mol in mols}) > 1:
            acc.violation('c03:shared-name-different-topology(instance-reuse)',
                          'after naming %r, the same NameMolType instance gives %d molecules of %r the name %s although their written topologies differ' % (
                              list(seq1), len(mols), list(seq2), name), case)
            return


def reuse_work(task):
    common.bind_repo()
    acc = Acc()
    for seq1, seq2 in task:
        check_instance_reuse(seq1, seq2, acc)
    return acc


def work(task):
    common.bind_repo()
    acc = Acc()
    base = tempfile.mkdtemp(prefix='verif_c03_', dir='/dev/shm' if os.path.isdir('/dev/shm') else None)
    try:
        for n, (seq, dedup, sort) in enumerate(task):
            check(seq, dedup, sort, acc, base, sample=(n % 1013 == 0))
    finally:
        shutil.rmtree(base, ignore_errors=True)
    return acc


def run_files_layer(ctx, max_mols, name='written-files-agree'):
    cases = []
    for m in range(1, max_mols + 1):
        for seq in itertools.product(SHAPES, repeat=m):
            for dedup in (True, False):
                for sort in (False, True):
                    cases.append((seq, dedup, sort))
    acc = Acc()
    for part in common.pmap(work, list(common.chunked(cases, max(1, len(cases) // 64)))):
        acc += part
    ctx.layer(name, acc)


def run(ctx):
    max_mols = 3 if ctx.quick else 4
    ctx.bound = {'molecules': max_mols, 'shapes': SHAPES}
    run_files_layer(ctx, max_mols)
    short = ['P', 'Q', 'S', 'X']
    pairs = [(a, b) for n1 in (1, 2) for a in itertools.product(short, repeat=n1) for n2 in (1, 2, 3) for b in itertools.product(short, repeat=n2)]
    acc = Acc()
    for part in common.pmap(reuse_work, list(common.chunked(pairs, max(1, len(pairs) // 32)))):
        acc += part
    ctx.layer('instance-reuse', acc)
    # every sequence of <= 3 chains over three kinds through the real program, with and without -sep / -merge
    cli_cases = []
    for m in (1, 2, 3):
        for chains in itertools.product('PSQ', repeat=m):
            for extra in [[], ['-sep']] + ([['-merge', 'A,B']] if m >= 2 else []):
                cli_cases.append((chains, extra))
    acc = Acc()
    for part in common.pmap(cli_work, list(common.chunked(cli_cases, max(1, len(cli_cases) // 16)))):
        acc += part
    ctx.layer('cli', acc)
    from props import cli_topology
    cli_topology.run_layer(ctx)


def replay(case):
    common.bind_repo()
    if case.get('layer') == 'cli-topology':
        from props import cli_topology
        return cli_topology.replay(case)
    acc = Acc()
    base = tempfile.mkdtemp(prefix='verif_c03r_')
    try:
        if case.get('layer') == 'reuse':
            check_instance_reuse(tuple(case['first']), tuple(case['second']), acc)
            return [(s, d) for s, d, _ in acc.violations]
        if case.get('layer') == 'cli':
            check_cli(tuple(case['chains']), list(case['options']), acc, base)
            return [(s, d) for s, d, _ in acc.violations]
        check(tuple(case['shapes']), case['deduplicate'], case['sort'], acc, base)
    finally:
        shutil.rmtree(base, ignore_errors=True)
    return [(s, d) for s, d, _ in acc.violations]
