"""
C19 — mutation and modification requests hit exactly the residues they name.

Layer "annotate": specification strings = every combination of present/absent parts with chain in {A,B},
        name in {ALA, GLY, PO4, nter, cter}, number in {1,2,45}, with and without '#'; systems = every single
        molecule and every ordered pair from a library of residue graphs (path ascending / descending, star, ring,
        isolated residue, non-protein, equal numbers with insertion codes, protein attached to non-protein); request
        lists of length 1 (all specs) and 2 (all ordered pairs of a reduced menu), as mutations and as modifications,
        plus the empty list and unknown targets.
        Oracle: independent parser of [<chain>-][<resname>][[#]<resid>]; a residue is marked iff it matches all
        given parts (nter/cter = protein residue of degree 1 whose neighbour has the higher/lower number), on all
        its atoms; EACH request that matches nothing in the whole system produces a warning naming its target;
        unknown target => error.
Layer "repair": marked residues through the real RepairGraph on charmm blocks: afterwards the residue has the atoms
        of the requested block / modification and the surplus atoms are gone.
"""
import itertools
import re

from mc import common
from mc.common import Acc

RULE = ("annotate: all (system, request list) pairs of the stated menus; distinct = distinct pairs; non-trivial = at least "
        "one residue matches and at least one does not, or a request matches nothing; repair: residue types x requests")
ASSUMPTIONS = ["a resid given together with nter/cter is not generated (the code ignores it; the statement is silent)",
               "a request that is both unmatched and has an unknown target is not generated",
               "the empty specification string is not generated"]

PROTEIN = {'ALA', 'GLY'}


# ----------------------------------------------------------------------------- reference

def ref_parse(spec):
    chain = None
    rest = spec
    if '-' in spec:
        chain, rest = spec.split('-', 1)
    if '#' in rest:
        name, number = rest.rsplit('#', 1)
    else:
        match = re.match(r'^(.*?)(\d*)$', rest, re.S)
        name, number = match.group(1), match.group(2)
    out = {}
    if number:
        out['resid'] = int(number)
    if name:
        out['resname'] = name
    if chain is not None:
        out['chain'] = chain
    return out


def ref_matches(spec, residue, degree, neighbour_resids):
    """residue: dict(chain, resname, resid, icode)."""
    parsed = dict(spec)
    name = parsed.get('resname')
    if name in ('nter', 'cter'):
        if degree != 1 or residue['resname'] not in PROTEIN:
            return False
        other = neighbour_resids[0]
        if name == 'nter' and not residue['resid'] < other:
            return False
        if name == 'cter' and not residue['resid'] > other:
            return False
        parsed.pop('resname')
        parsed.pop('resid', None)
    for key, value in parsed.items():
        if residue.get(key) != value:
            return False
    return True


# ----------------------------------------------------------------------------- systems

# name -> (residues [(chain, resname, resid, icode)], residue edges)
SHAPES = {
    'path': ([('A', 'ALA', 1, ''), ('A', 'GLY', 2, ''), ('A', 'ALA', 3, ''), ('A', 'GLY', 45, '')], [(0, 1), (1, 2), (2, 3)]),
    'path-desc': ([('B', 'ALA', 3, ''), ('B', 'GLY', 2, ''), ('B', 'ALA', 1, '')], [(0, 1), (1, 2)]),
    'star': ([('A', 'GLY', 2, ''), ('A', 'ALA', 1, ''), ('A', 'ALA', 3, ''), ('A', 'ALA', 45, '')], [(0, 1), (0, 2), (0, 3)]),
    'ring': ([('B', 'ALA', 1, ''), ('B', 'GLY', 2, ''), ('B', 'ALA', 45, '')], [(0, 1), (1, 2), (2, 0)]),
    'single': ([('B', 'ALA', 1, '')], []),
    'lipid': ([('B', 'PO4', 1, ''), ('B', 'PO4', 2, '')], [(0, 1)]),
    'icodes': ([('A', 'ALA', 2, ''), ('A', 'ALA', 2, 'A'), ('A', 'GLY', 2, 'B')], [(0, 1), (1, 2)]),
    'mixed': ([('A', 'ALA', 1, ''), ('A', 'PO4', 2, '')], [(0, 1)]),
    'from-zero': ([('A', 'GLY', 0, ''), ('A', 'ALA', 1, ''), ('A', 'PO4', 0, '')], [(0, 1), (1, 2)]),
}


def toy_ff():
    from vermouth.forcefield import ForceField
    from vermouth.molecule import Block, Modification
    ff = ForceField(name='c19ff')
    for name in ('ALA', 'GLY', 'PO4'):
        block = Block(force_field=ff)
        block.name = name
        block.add_atom({'atomname': 'CA', 'resname': name, 'resid': 1})
        ff.blocks[name] = block
    for name in ('MODX', 'MODY', 'N-ter', 'C-ter'):
        mod = Modification(force_field=ff)
        mod.name = name
        ff.modifications[name] = mod
    return ff


def build(system_spec, ff):
    import vermouth
    system = vermouth.System(force_field=ff)
    info = []
    for midx, shape in enumerate(system_spec):
        residues, edges = SHAPES[shape]
        mol = vermouth.molecule.Molecule(force_field=ff)
        keys = {}
        key = 0
        # interleave atom keys of different residues so that residue membership is not contiguous
        for atom_idx in range(2):
            for ridx, (chain, resname, resid, icode) in enumerate(residues):
                mol.add_node(key, chain=chain, resname=resname, resid=resid, insertion_code=icode,
                             atomname='CA' if atom_idx == 0 else 'CB')
                keys.setdefault(ridx, []).append(key)
                key += 1
        for ridx in keys:
            mol.add_edge(keys[ridx][0], keys[ridx][1])
        for a, b in edges:
            mol.add_edge(keys[a][0], keys[b][0])
        system.add_molecule(mol)
        degree = {r: 0 for r in range(len(residues))}
        nbrs = {r: [] for r in range(len(residues))}
        for a, b in edges:
            degree[a] += 1
            degree[b] += 1
            nbrs[a].append(residues[b][2])
            nbrs[b].append(residues[a][2])
        for ridx, (chain, resname, resid, icode) in enumerate(residues):
            info.append({'mol': midx, 'keys': keys[ridx], 'chain': chain, 'resname': resname, 'resid': resid,
                         'insertion_code': icode, 'degree': degree[ridx], 'nbrs': nbrs[ridx]})
    return system, info


def all_specs():
    specs = []
    for chain, name, number, hashed in itertools.product((None, 'A', 'B'), (None, 'ALA', 'GLY', 'PO4', 'nter', 'cter'),
                                                         (None, 0, 1, 2, 45), (False, True)):
        if hashed and number is None:
            continue
        if name in ('nter', 'cter') and number is not None:
            continue
        if name is None and number is None:
            continue
        text = ''
        if chain:
            text += chain + '-'
        if name:
            text += name
        if number is not None:
            text += ('#' if hashed else '') + str(number)
        specs.append(text)
    return sorted(set(specs))


REDUCED = ['ALA', 'A-GLY2', 'B-ALA', 'PO4#2', 'PO42', 'nter', 'A-cter', 'GLY45', '#1', 'B-45', 'A-45', 'A-PO4', 'ALA#3', 'GLY0', '#0']


def check_requests(system_spec, requests, kind, acc, sample=False):
    """requests: list of (spec string, target)."""
    from vermouth.processors.annotate_mut_mod import AnnotateMutMod
    ff = toy_ff()
    system, info = build(system_spec, ff)
    case = {'layer': 'annotate', 'system': list(system_spec), 'requests': [list(r) for r in requests], 'kind': kind}
    attr = 'mutation' if kind == 'mutations' else 'modification'
    known = set(ff.blocks) if kind == 'mutations' else set(ff.modifications) | {'none'}
    parsed = [(ref_parse(spec), target) for spec, target in requests]
    expected_marks = {}
    unmatched = []
    expect_error = False
    for (spec, target), (text, _) in zip(parsed, requests):
        hit = False
        for res in info:
            if ref_matches(spec, res, res['degree'], res['nbrs']):
                hit = True
                for key in res['keys']:
                    expected_marks.setdefault((res['mol'], key), []).append(target)
        if not hit:
            unmatched.append((text, target))
        elif target not in known:
            expect_error = True
    try:
        kwargs = {kind: [(spec, target) for spec, target in requests]}
        processor = AnnotateMutMod(**kwargs)
        with common.LogCapture() as log:
            processor.run_system(system)
        outcome = 'ok'
    except NameError:
        outcome = 'unknown-target-error'
    except Exception as err:   # pylint: disable=broad-except
        outcome = 'exception %s: %s' % (type(err).__name__, err)
    n_hit = len(expected_marks)
    total_atoms = sum(len(r['keys']) for r in info)
    acc.case(nontrivial=(0 < n_hit < total_atoms) or bool(unmatched), outcome=(outcome[:12], n_hit, len(unmatched)),
             sample=case if sample else None)
    if expect_error:
        if outcome != 'unknown-target-error':
            acc.violation('c19:unknown-target-accepted', 'request for unknown target was not refused: %r (%s)' % (requests, outcome), case)
        return
    if outcome != 'ok':
        sig = 'c19:exception' + (':no-requests' if not requests else '')
        acc.violation(sig, 'AnnotateMutMod failed on %r: %s' % (requests, outcome), case)
        return
    got_marks = {}
    for midx, mol in enumerate(system.molecules):
        for key, node in mol.nodes(data=True):
            if node.get(attr):
                got_marks[(midx, key)] = list(node[attr])
    if got_marks != expected_marks:
        wrongly = sorted(set(got_marks) - set(expected_marks))
        missed = sorted(set(expected_marks) - set(got_marks))
        if wrongly:
            sig = 'c19:residue-wrongly-marked'
        elif missed:
            sig = 'c19:residue-not-marked'
        else:
            sig = 'c19:marks-differ'
        acc.violation(sig, 'requests %r on %r: marked atoms %r, the specification selects %r' % (
            requests, list(system_spec), got_marks, expected_marks), case)
        return
    messages = log.messages()
    for text, target in unmatched:
        if not any(('mutation "%s"' % target) in m for m in messages):
            acc.violation('c19:unmatched-request-not-reported',
                          'request %s:%s matches no residue of the system %r but no warning names it (warnings: %r; all requests %r)' % (
                              text, target, list(system_spec), messages, requests), case)
            return
    if len(messages) != len(unmatched):
        acc.violation('c19:warning-count', '%d warnings for %d unmatched requests: %r' % (len(messages), len(unmatched), messages), case)


def marks_of(system, attr):
    out = {}
    for midx, mol in enumerate(system.molecules):
        for key, node in mol.nodes(data=True):
            if node.get(attr):
                out[(midx, key)] = list(node[attr])
    return out


def expected_marks_for(info, requests):
    marks = {}
    for text, target in requests:
        spec = ref_parse(text)
        for res in info:
            if ref_matches(spec, res, res['degree'], res['nbrs']):
                for key in res['keys']:
                    marks.setdefault((res['mol'], key), []).append(target)
    return marks


def check_rounds(system_spec, first, second, mode, acc):
    """Two rounds of requests. mode 'repeat': both on the same system (marks accumulate per atom, in request order);
    mode 'copy': the second round on a copy of the system - the original keeps the marks of the first round only;
    mode 'subgraph': the second round on a system holding subgraph copies of the molecules."""
    import vermouth
    from vermouth.processors.annotate_mut_mod import AnnotateMutMod
    ff = toy_ff()
    system, info = build(system_spec, ff)
    case = {'layer': 'annotate-rounds', 'system': list(system_spec), 'first': [list(r) for r in first], 'second': [list(r) for r in second], 'mode': mode}
    want_first = expected_marks_for(info, first)
    want_second = expected_marks_for(info, second)
    both = {k: want_first.get(k, []) + want_second.get(k, []) for k in set(want_first) | set(want_second)}
    try:
        with common.LogCapture():
            AnnotateMutMod(modifications=list(first)).run_system(system)
            if mode == 'repeat':
                other = system
            elif mode == 'copy':
                other = system.copy()
            else:
                other = vermouth.System(force_field=system.force_field)
                other.molecules = [mol.subgraph(list(mol.nodes)) for mol in system.molecules]
            AnnotateMutMod(modifications=list(second)).run_system(other)
    except Exception as err:   # pylint: disable=broad-except
        acc.case(outcome='exc')
        acc.violation('c19:rounds-exception', 'two rounds of requests raised %r' % (err,), case)
        return
    got_original = marks_of(system, 'modification')
    got_other = marks_of(other, 'modification')
    acc.case(nontrivial=bool(want_first) and bool(want_second), outcome=('rounds', mode, len(want_first), len(want_second)))
    if got_other != both:
        acc.violation('c19:rounds-marks', '%s: after the rounds %r and %r the marks are %r; the specifications select %r' % (
            mode, first, second, got_other, both), case)
    elif mode != 'repeat' and got_original != want_first:
        acc.violation('c19:request-leaks-to-other-system', 'the second round %r was applied to a %s of the system, yet the ORIGINAL system '
                      'now carries %r instead of the marks of the first round %r' % (second, mode, got_original, want_first), case)


def check_processor_reuse(first_spec, second_spec, requests, acc):
    """ONE AnnotateMutMod instance over two systems in turn: the second run is judged on its own - marks and, above all, the
    report of requests that match no residue of the SECOND system (whatever they matched in the first)."""
    from vermouth.processors.annotate_mut_mod import AnnotateMutMod
    ff = toy_ff()
    case = {'layer': 'annotate-reuse', 'first': list(first_spec), 'second': list(second_spec), 'requests': [list(r) for r in requests]}
    system1, _ = build(first_spec, ff)
    system2, info2 = build(second_spec, ff)
    want = expected_marks_for(info2, requests)
    unmatched = []
    for text, target in requests:
        spec = ref_parse(text)
        if not any(ref_matches(spec, res, res['degree'], res['nbrs']) for res in info2):
            unmatched.append((text, target))
    try:
        processor = AnnotateMutMod(modifications=list(requests))
        with common.LogCapture():
            processor.run_system(system1)
        with common.LogCapture() as log:
            processor.run_system(system2)
    except Exception as err:   # pylint: disable=broad-except
        acc.case(outcome='exc')
        acc.violation('c19:reuse-exception', 'one AnnotateMutMod over two systems raised %r' % (err,), case)
        return
    got = marks_of(system2, 'modification')
    messages = log.messages()
    acc.case(nontrivial=bool(unmatched), outcome=('reuse', len(want), len(unmatched), len(messages)))
    if got != want:
        acc.violation('c19:reuse-marks', 'second system %r: marks %r, the specifications select %r' % (list(second_spec), got, want), case)
    elif len(messages) != len(unmatched) or any(not any(('mutation "%s"' % target) in m for m in messages) for _, target in unmatched):
        acc.violation('c19:unmatched-request-not-reported(processor-reuse)', 'the same processor first ran on %r; on %r the requests %r match no '
                      'residue, but the warnings were %r' % (list(first_spec), list(second_spec), unmatched, messages), case)


def reuse_items():
    reqs = [('A-GLY2', 'MODY'), ('B-ALA', 'MODX'), ('PO4#2', 'MODX'), ('GLY45', 'MODY'), ('nter', 'MODX')]
    names = ['path', 'path-desc', 'lipid', 'single', 'star']
    for first, second in itertools.permutations(names, 2):
        for req in reqs:
            yield (first,), (second,), [req]
        yield (first,), (second,), [reqs[0], reqs[1]]


def rounds_items(tier):
    names = ['path', 'star', 'icodes'] if tier == 'quick' else list(SHAPES)
    reqs = [('ALA', 'MODX'), ('A-GLY2', 'MODY'), ('nter', 'MODX'), ('#1', 'MODY'), ('A-cter', 'MODX')]
    for name in names:
        if name not in SHAPES:
            continue
        for first, second in itertools.product(reqs, repeat=2):
            for mode in ('repeat', 'copy', 'subgraph'):
                yield (name,), [first], [second], mode
        yield (name,), [reqs[0], reqs[1]], [reqs[2], reqs[0]], 'copy'


def work(task):
    common.bind_repo()
    kind, items = task
    acc = Acc()
    if kind == 'rounds':
        for system_spec, first, second, mode in items:
            check_rounds(system_spec, first, second, mode, acc)
        return acc
    if kind == 'reuse':
        for first_spec, second_spec, requests in items:
            check_processor_reuse(first_spec, second_spec, requests, acc)
        return acc
    if kind == 'annotate':
        for system_spec, requests, which in items:
            check_requests(system_spec, requests, which, acc, sample=(acc.states % 4001 == 0))
    else:
        from props import c19_repair
        c19_repair.work_items(items, acc)
    return acc


def annotate_items(tier):
    names = list(SHAPES)
    systems = [(n,) for n in names] + list(itertools.product(names, repeat=2))
    if tier == 'quick':
        systems = [(n,) for n in names] + [s for s in itertools.product(names, repeat=2)
                                           if s[0] in ('lipid', 'single', 'path') or s[1] in ('star', 'icodes', 'from-zero')]
    specs = all_specs()
    items = []
    for system_spec in systems:
        for which, targets in (('mutations', ('GLY', 'ALA')), ('modifications', ('MODX', 'MODY'))):
            items.append((system_spec, [], which))
            for spec in specs:
                items.append((system_spec, [(spec, targets[0])], which))
            for first, second in itertools.product(REDUCED, repeat=2):
                items.append((system_spec, [(first, targets[0]), (second, targets[1])], which))
            # two requests for the SAME target that differ in one part only (each is reported on its own when it matches nothing)
            for first, second in (('A-45', 'B-45'), ('B-45', 'A-45'), ('#1', '#0'), ('A-GLY2', 'B-GLY2'), ('A-45', 'A-46'), ('GLY45', 'ALA45'),
                                  # a residue number 0 that matches nothing next to the same request without a number
                                  ('ALA0', 'ALA'), ('ALA', 'ALA0'), ('A-ALA0', 'A-ALA'), ('PO4#0', 'PO4'), ('ALA#0', 'ALA')):
                items.append((system_spec, [(first, targets[0]), (second, targets[0])], which))
            # unknown targets, only on specifications that match something in 'path'
            if 'path' in system_spec:
                items.append((system_spec, [('ALA', 'NOPE')], which))
                items.append((system_spec, [('A-GLY2', targets[0]), ('ALA', 'NOPE')], which))
            items.append((system_spec, [('ALA', 'none')], 'modifications'))
    return items


def run(ctx):
    ctx.bound = {'molecules_per_system': 2, 'residues_per_molecule': 4, 'request_list_length': 2,
                 'specification_strings': len(all_specs())}
    items = annotate_items(ctx.tier)
    acc = Acc()
    for part in common.pmap(work, [('annotate', chunk) for chunk in common.chunked(items, max(1, len(items) // 96))]):
        acc += part
    ctx.layer('annotate', acc)
    ritems = list(rounds_items(ctx.tier))
    acc = Acc()
    for part in common.pmap(work, [('rounds', chunk) for chunk in common.chunked(ritems, max(1, len(ritems) // 16))]):
        acc += part
    ctx.layer('annotate-rounds', acc)
    uitems = list(reuse_items())
    acc = Acc()
    for part in common.pmap(work, [('reuse', chunk) for chunk in common.chunked(uitems, max(1, len(uitems) // 16))]):
        acc += part
    ctx.layer('annotate-processor-reuse', acc)
    from props import c19_repair
    c19_repair.run_layer(ctx)
    from props import c19_cli
    c19_cli.run_layer(ctx)


def replay(case):
    common.bind_repo()
    acc = Acc()
    if case.get('layer') == 'cli':
        from props import c19_cli
        return c19_cli.replay(case)
    if case.get('layer') == 'repair':
        from props import c19_repair
        return c19_repair.replay(case)
    if case.get('layer') == 'annotate-reuse':
        check_processor_reuse(tuple(case['first']), tuple(case['second']), [tuple(r) for r in case['requests']], acc)
        return [(s, d) for s, d, _ in acc.violations]
    if case.get('layer') == 'annotate-rounds':
        check_rounds(tuple(case['system']), [tuple(r) for r in case['first']], [tuple(r) for r in case['second']], case['mode'], acc)
        return [(s, d) for s, d, _ in acc.violations]
    check_requests(tuple(case['system']), [tuple(r) for r in case['requests']], case['kind'], acc)
    return [(s, d) for s, d, _ in acc.violations]
