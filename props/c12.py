"""
C12 — editing a molecule keeps atoms, bonds and interactions consistent.

Engine A: breadth-first search over edit histories on real `vermouth.molecule.Molecule`
objects, a dict/set/list reference model stepped in lock-step.

World    : slot M (the molecule being edited) and slot C (a copy / subgraph of M, once made).
Initial  : empty | 2 atoms {0,1} with a bond | 3 atoms with sparse unordered keys {7,2,40}
           with a bond and an angle.
Alphabet : add_node (fresh / sparse / EXISTING key), add_nodes_from, remove_node (min/max),
           remove_nodes_from (list and GENERATOR argument), add_edge, add_interaction (valid and
           with an absent atom), add_or_replace_interaction (version 0/1), remove_interaction,
           copy, subgraph, edits of the copy (add/remove node, add/remove interaction, attribute
           assignment), merge_molecule of a 1-atom / 2-atom donor, merge of Block.to_molecule(),
           MergeAllMolecules, MergeChains.
Oracle   : after EVERY transition  abstract(impl slot) == model slot  for both slots (so editing
           a copy never changes its source and vice versa), every interaction/bond refers to
           present atoms, and for merges the relational clauses of the statement (fresh keys,
           nothing overwritten or dropped, uniform resid / charge-group shift by the receiver's
           last atom, all donor bonds and interactions carried over).
"""
import copy as _copy

from mc import common, explore
from mc.common import Acc

RULE = ("states are abstract molecule pairs (M, copy) incl. the hidden highest-key cache, de-duplicated; all enabled "
        "operations of the alphabet are applied in every state up to the depth bound; non-trivial = M has >= 2 atoms and "
        ">= 1 interaction")
ASSUMPTIONS = ["'last atom' of the receiver in a merge may be the last in node order or the highest key (statement does not choose); either accepted",
               "in-place mutation of a shared parameter list is not one of the listed editing operations and is not generated",
               "interaction atoms are passed as tuples"]

SPARSE_KEY = 50


# ----------------------------------------------------------------------------- model

class ModelMol:
    def __init__(self):
        self.nodes = {}      # key -> {'resid','charge_group','atomname','chain'}
        self.edges = set()   # frozenset({a,b})
        self.inter = {}      # type -> list of [atoms(tuple), params(tuple), version]
        self.citations = {'vermouth'}

    def clone(self):
        new = ModelMol()
        new.nodes = {k: dict(v) for k, v in self.nodes.items()}
        new.edges = set(self.edges)
        new.inter = {t: [list(i) for i in lst] for t, lst in self.inter.items()}
        new.citations = set(self.citations)
        return new

    def abstract(self):
        return {
            'nodes': [[k, d.get('resid'), d.get('charge_group'), d.get('atomname'), d.get('chain')]
                      for k, d in self.nodes.items()],
            'edges': sorted(sorted(e) for e in self.edges),
            'inter': sorted([t, [[list(a), list(p), v] for a, p, v in lst]] for t, lst in self.inter.items() if lst),
            'citations': sorted(self.citations),
        }

    def drop_nodes(self, keys):
        keys = set(keys)
        for k in keys:
            self.nodes.pop(k, None)
        self.edges = {e for e in self.edges if not (e & keys)}
        for t in list(self.inter):
            self.inter[t] = [i for i in self.inter[t] if not (set(i[0]) & keys)]
            if not self.inter[t]:
                del self.inter[t]


def abstract_impl(mol):
    return {
        'nodes': [[k, d.get('resid'), d.get('charge_group'), d.get('atomname'), d.get('chain')]
                  for k, d in mol.nodes(data=True)],
        'edges': sorted(sorted(e) for e in mol.edges),
        'inter': sorted([t, [[list(i.atoms), list(i.parameters), i.meta.get('version', 0)] for i in lst]]
                        for t, lst in mol.interactions.items() if lst),
        'citations': sorted(mol.citations),
    }


def attrs_for(key, n):
    return {'resid': n + 1, 'charge_group': n + 1, 'atomname': 'X%d' % key, 'chain': 'A'}


# ----------------------------------------------------------------------------- donors

def donor(kind):
    """Returns (Molecule, ModelMol)."""
    import vermouth
    mol = vermouth.molecule.Molecule()
    model = ModelMol()
    if kind == 'D1':
        spec = [(0, {'resid': 1, 'charge_group': 1, 'atomname': 'D', 'chain': 'B'})]
        edges = []
        inter = [('position_restraints', (0,), ('1', '1000'), 0)]
    else:
        # numbered from 0: a legitimate residue number / charge group that is falsy
        spec = [(5, {'resid': 0, 'charge_group': 0, 'atomname': 'DA', 'chain': 'B'}),
                (3, {'resid': 1, 'charge_group': 1, 'atomname': 'DB', 'chain': 'B'})]
        edges = [(5, 3)]
        inter = [('bonds', (5, 3), ('1', '0.3'), 0), ('bonds', (5, 3), ('1', '0.4'), 1)]
    for k, a in spec:
        mol.add_node(k, **a)
        model.nodes[k] = dict(a)
    for a, b in edges:
        mol.add_edge(a, b)
        model.edges.add(frozenset((a, b)))
    for t, atoms, params, ver in inter:
        mol.add_interaction(t, atoms, list(params), meta={'version': ver} if ver else {})
        model.inter.setdefault(t, []).append([tuple(atoms), tuple(params), ver])
    mol.citations.add('cite-' + kind)
    model.citations.add('cite-' + kind)
    return mol, model


def block_donor():
    import vermouth
    block = vermouth.molecule.Block()
    block.name = 'BLK'
    block.add_atom({'atomname': 'P', 'resid': 1, 'charge_group': 1, 'chain': 'B'})
    block.add_atom({'atomname': 'Q', 'resid': 1, 'charge_group': 2, 'chain': 'B'})
    block.add_edge('P', 'Q')
    block.add_interaction('bonds', ('P', 'Q'), ['1', '0.5'])
    block.nrexcl = None
    return block


# ----------------------------------------------------------------------------- spec

class Spec:
    def initials(self):
        return ['empty', 'two', 'sparse3']

    def build(self, initial):
        import vermouth
        mol = vermouth.molecule.Molecule()
        model = ModelMol()
        if initial == 'two':
            keys, edges = [0, 1], [(0, 1)]
            inter = [('bonds', (0, 1), ('1', '0.2'), 0)]
        elif initial == 'sparse3':
            keys, edges = [7, 2, 40], [(7, 2), (2, 40)]
            inter = [('bonds', (7, 2), ('1', '0.2'), 0), ('angles', (7, 2, 40), ('2', '120'), 0)]
        else:
            keys, edges, inter = [], [], []
        for n, k in enumerate(keys):
            a = attrs_for(k, n)
            if initial == 'two':
                a['resid'] -= 1          # this molecule is numbered from 0
                a['charge_group'] -= 1
            mol.add_node(k, **a)
            model.nodes[k] = dict(a)
        for a, b in edges:
            mol.add_edge(a, b)
            model.edges.add(frozenset((a, b)))
        for t, atoms, params, ver in inter:
            mol.add_interaction(t, atoms, list(params))
            model.inter.setdefault(t, []).append([tuple(atoms), tuple(params), ver])
        return {'impl': {'M': mol, 'C': None}, 'model': {'M': model, 'C': None}}

    def enabled(self, world):
        m = world['model']['M']
        ops = []
        ops += [['M', 'add_node', 'fresh'], ['M', 'add_node', 'sparse'], ['M', 'add_nodes_from']]
        if m.nodes:
            ops += [['M', 'add_node', 'existing'],
                    ['M', 'remove_node', 'min'], ['M', 'remove_node', 'max'],
                    ['M', 'remove_nodes_from', 'list', 'min'], ['M', 'remove_nodes_from', 'list', 'max'],
                    ['M', 'remove_nodes_from', 'gen', 'min'], ['M', 'remove_nodes_from', 'gen', 'max'],
                    ['M', 'copy'], ['M', 'subgraph'], ['M', 'subgraph', 'repeated-keys'], ['M', 'copy', 'system']]
        if len(m.nodes) >= 2:
            ops += [['M', 'add_edge'], ['M', 'add_interaction', 'ok'],
                    ['M', 'add_or_replace', 0], ['M', 'add_or_replace', 1],
                    ['M', 'remove_interaction']]
        ops += [['M', 'add_interaction', 'absent'], ['M', 'add_or_replace', 'absent']]
        ops += [['M', 'merge', 'D1'], ['M', 'merge', 'D2'], ['M', 'merge_block'],
                ['M', 'merge_all'], ['M', 'merge_chains']]
        c = world['model']['C']
        if c is not None:
            ops += [['C', 'add_node', 'fresh'], ['C', 'set_attr']]
            if c.nodes:
                ops += [['C', 'remove_node', 'min'], ['C', 'merge', 'D1']]
            if len(c.nodes) >= 2:
                ops += [['C', 'add_interaction', 'ok'], ['C', 'remove_interaction'], ['C', 'add_or_replace', 0]]
            ops += [['C', 'add_or_replace', 'absent']]
        return ops

    def interesting(self, world):
        m = world['model']['M']
        return len(m.nodes) >= 2 and any(m.inter.values())

    def canon(self, world):
        out = {}
        for slot in ('M', 'C'):
            mol = world['impl'][slot]
            if mol is None:
                out[slot] = None
            else:
                out[slot] = abstract_impl(mol)
                out[slot]['max_node'] = mol.max_node   # hidden state that influences merges
                # every other instance attribute the class may keep (caches): part of the state, whatever it is called
                out[slot]['hidden'] = sorted((k, repr(v)[:200]) for k, v in vars(mol).items()
                                             if k not in ('_node', '_adj', 'graph', 'meta', '_force_field', 'nrexcl', 'interactions', '_citations',
                                                          'citations', 'max_node', 'log_entries', 'box', '__networkx_cache__', 'nodes', 'edges', 'adj', 'degree'))
        m, c = world['impl']['M'], world['impl']['C']
        if m is not None and c is not None:
            # what the copy SHARES with its source decides the future of both: merged states must agree on it
            out['shared'] = {
                'object': c is m,
                'node-dicts': sorted(str(k) for k in c.nodes if k in m.nodes and c.nodes[k] is m.nodes[k]),
                'interaction-table': c.interactions is m.interactions,
                'interaction-lists': sorted(t for t in c.interactions if t in m.interactions and c.interactions[t] is m.interactions[t]),
                'citations': c.citations is m.citations,
                'meta': c.meta is m.meta,
            }
        return out

    # ------------------------------------------------------------------ one transition
    def apply(self, world, op):
        slot, name = op[0], op[1]
        mol = world['impl'][slot]
        model = world['model'][slot]
        found = []
        label = '%s.%s' % (slot, '/'.join(str(x) for x in op[1:]))

        def keys_minmax():
            ks = list(model.nodes)
            return min(ks), max(ks)

        expect_error = False
        after = model.clone()
        call = None
        relational = None

        if name == 'add_node':
            which = op[2]
            if which == 'fresh':
                key = (max(model.nodes) + 1) if model.nodes else 0
            elif which == 'sparse':
                key = SPARSE_KEY if SPARSE_KEY not in model.nodes else max(model.nodes) + 7
            else:
                key = min(model.nodes)
            if key in model.nodes:
                attrs = {'atomname': 'renamed'}
                after.nodes[key].update(attrs)
            else:
                attrs = attrs_for(key, len(model.nodes))
                after.nodes[key] = dict(attrs)
            call = lambda: mol.add_node(key, **attrs)
        elif name == 'add_nodes_from':
            base = (max(model.nodes) + 1) if model.nodes else 0
            items = [(base + i, attrs_for(base + i, len(model.nodes) + i)) for i in range(2)]
            for k, a in items:
                after.nodes[k] = dict(a)
            call = lambda: mol.add_nodes_from(items)
        elif name == 'remove_node':
            lo, hi = keys_minmax()
            key = lo if op[2] == 'min' else hi
            after.drop_nodes([key])
            call = lambda: mol.remove_node(key)
        elif name == 'remove_nodes_from':
            lo, hi = keys_minmax()
            key = lo if op[3] == 'min' else hi
            victims = [key, 999]     # an absent key is silently ignored by networkx
            after.drop_nodes(victims)
            if op[2] == 'list':
                call = lambda: mol.remove_nodes_from(list(victims))
            else:
                call = lambda: mol.remove_nodes_from(v for v in victims)
        elif name == 'add_edge':
            lo, hi = keys_minmax()
            after.edges.add(frozenset((lo, hi)))
            call = lambda: mol.add_edge(lo, hi)
        elif name == 'add_interaction':
            if op[2] == 'ok':
                lo, hi = keys_minmax()
                atoms = (lo, hi)
                after.inter.setdefault('bonds', []).append([atoms, ('1', '0.25'), 0])
                call = lambda: mol.add_interaction('bonds', atoms, ['1', '0.25'])
            else:
                atoms = ((min(model.nodes) if model.nodes else 998), 999)
                expect_error = True
                call = lambda: mol.add_interaction('bonds', atoms, ['1', '0.25'])
        elif name == 'add_or_replace' and op[2] == 'absent':
            atoms = ((min(model.nodes) if model.nodes else 998), 999)
            expect_error = True
            call = lambda: mol.add_or_replace_interaction('bonds', atoms, ['1', '0.25'])
        elif name == 'add_or_replace':
            lo, hi = keys_minmax()
            atoms, ver = (lo, hi), op[2]
            params = ('1', '0.7%d' % ver)
            lst = after.inter.setdefault('bonds', [])
            for item in lst:
                if item[0] == atoms and item[2] == ver:
                    item[1] = params
                    break
            else:
                lst.append([atoms, params, ver])
            call = lambda: mol.add_or_replace_interaction('bonds', atoms, list(params), meta={'version': ver} if ver else {})
        elif name == 'remove_interaction':
            lo, hi = keys_minmax()
            atoms = (lo, hi)
            lst = after.inter.get('bonds', [])
            for idx, item in enumerate(lst):
                if item[0] == atoms and item[2] == 0:
                    del lst[idx]
                    if not lst:
                        del after.inter['bonds']
                    break
            else:
                expect_error = True
            call = lambda: mol.remove_interaction('bonds', atoms, version=0)
        elif name == 'set_attr':
            if model.nodes:
                key = min(model.nodes)
                after.nodes[key]['atomname'] = 'edited'

                def call():
                    mol.nodes[key]['atomname'] = 'edited'
            else:
                call = lambda: None
        elif name in ('copy', 'subgraph'):
            if name == 'copy' and len(op) > 2:
                # the copy of a whole system: its molecules must be copies too
                import vermouth
                new_model = model.clone()

                def maker():
                    system = vermouth.System()
                    system.molecules.append(mol)
                    return system.copy().molecules[0]
            elif name == 'copy':
                new_model = model.clone()
                maker = lambda: mol.copy()
            else:
                keep = [k for k in model.nodes if k != max(model.nodes)] or list(model.nodes)
                new_model = model.clone()
                new_model.drop_nodes(set(model.nodes) - set(keep))
                if len(op) > 2:
                    # the same selection, written with repeated keys so that the list is as long as the molecule has atoms
                    keys = list(keep) + [keep[0]] * (len(model.nodes) - len(keep))
                    maker = lambda: mol.subgraph(keys)
                else:
                    maker = lambda: mol.subgraph(keep)
            try:
                world['impl']['C'] = maker()
            except Exception as err:
                return [('%s:exception' % name, '%s raised %r' % (label, err))]
            world['model']['C'] = new_model
            return self.compare(world, label, name)
        elif name in ('merge', 'merge_block', 'merge_all', 'merge_chains'):
            return self.merge(world, slot, op, label)
        else:
            raise common.HarnessError('unknown op %r' % (op,))

        try:
            call()
            raised = None
        except Exception as err:   # pylint: disable=broad-except
            raised = err
        if expect_error:
            if raised is None:
                found.append(('%s:invalid-accepted' % name, '%s was accepted although it refers to an absent atom/interaction' % label))
            # the state must be unchanged
            found.extend(self.compare(world, label, name))
            return found
        if raised is not None:
            found.append(('%s:exception' % name, '%s raised %r on a state where it is valid' % (label, raised)))
            return found
        world['model'][slot] = after
        found.extend(self.compare(world, label, name if name != 'remove_nodes_from' else 'remove_nodes_from(%s)' % op[2]))
        return found

    def compare(self, world, label, name):
        found = []
        for slot in ('M', 'C'):
            mol, model = world['impl'][slot], world['model'][slot]
            if mol is None:
                continue
            got, want = abstract_impl(mol), model.abstract()
            present = set(mol.nodes)
            dangling = [(t, list(i.atoms)) for t, lst in mol.interactions.items() for i in lst
                        if not set(i.atoms) <= present]
            if dangling:
                found.append(('%s:dangling-interaction' % name,
                              'after %s slot %s has interactions on absent atoms: %r' % (label, slot, dangling)))
            elif got != want:
                other = 'source' if (label[0] == 'C' and slot == 'M') or (label[0] == 'M' and slot == 'C') else 'target'
                kind = 'aliasing' if other == 'source' else 'state-mismatch'
                found.append(('%s:%s' % (name, kind),
                              'after %s slot %s is %r, model says %r' % (label, slot, got, want)))
        return found

    def merge(self, world, slot, op, label):
        import vermouth
        name = op[1]
        mol, model = world['impl'][slot], world['model'][slot]
        before = model.clone()
        if name == 'merge':
            dmol, dmodel = donor(op[2])
        elif name == 'merge_block':
            block = block_donor()
            dmol = block.to_molecule()
            dmodel = ModelMol()
            for idx, (nm, cg) in enumerate((('P', 1), ('Q', 2))):
                dmodel.nodes[idx] = {'resid': 1, 'charge_group': cg, 'atomname': nm, 'chain': 'B'}
            dmodel.edges.add(frozenset((0, 1)))
            dmodel.inter['bonds'] = [[(0, 1), ('1', '0.5'), 0]]
            got = abstract_impl(dmol)
            # to_molecule itself
            if got != dmodel.abstract():
                return [('to_molecule:state-mismatch', 'Block.to_molecule gave %r, expected %r' % (got, dmodel.abstract()))]
        else:
            dmol, dmodel = donor('D2')
        found = []
        try:
            if name in ('merge', 'merge_block'):
                corr = mol.merge_molecule(dmol)
                result = mol
                receiver_map = {k: k for k in before.nodes}
            elif name == 'merge_all':
                system = vermouth.System()
                system.molecules = [mol, dmol]
                vermouth.MergeAllMolecules().run_system(system)
                if len(system.molecules) != 1 or system.molecules[0] is not mol:
                    return [('merge_all:result', 'MergeAllMolecules left %d molecules' % len(system.molecules))]
                result = mol
                corr = None
                receiver_map = {k: k for k in before.nodes}
            else:
                if not before.nodes:
                    # merging an empty molecule by chain: no chains to name; skip as disabled
                    return []
                system = vermouth.System()
                system.molecules = [mol, dmol]
                vermouth.MergeChains(chains=['A', 'B']).run_system(system)
                if len(system.molecules) != 1:
                    return [('merge_chains:result', 'MergeChains left %d molecules' % len(system.molecules))]
                result = system.molecules[0]
                corr = None
                receiver_map = None
        except Exception as err:   # pylint: disable=broad-except
            return [('%s:exception' % name, '%s raised %r' % (label, err))]

        res = abstract_impl(result)
        res_nodes = {n[0]: n for n in res['nodes']}
        order = [n[0] for n in res['nodes']]
        n_recv, n_don = len(before.nodes), len(dmodel.nodes)
        # --- nothing dropped or overwritten
        if len(order) != n_recv + n_don:
            found.append(('%s:atoms-lost' % name, '%s: %d + %d atoms gave %d (%r)' % (label, n_recv, n_don, len(order), order)))
            world['impl'][slot] = result
            return found
        if receiver_map is None:
            # MergeChains rebuilds: receiver atoms come first, in order
            receiver_map = dict(zip(before.nodes, order[:n_recv]))
            shift_first = True
        else:
            shift_first = False
        new_keys = [k for k in order if k not in set(receiver_map.values())]
        if corr is None:
            corr = dict(zip(dmodel.nodes, new_keys))
        if (set(corr) != set(dmodel.nodes) or len(set(corr.values())) != n_don
                or set(corr.values()) & set(receiver_map.values()) or not set(corr.values()) <= set(order)):
            found.append(('%s:keys-not-fresh' % name, '%s: correspondence %r, receiver keys %r, result %r' % (
                label, corr, sorted(receiver_map.values()), order)))
            world['impl'][slot] = result
            return found
        # --- expected model
        after = ModelMol()
        for k, a in before.nodes.items():
            after.nodes[receiver_map[k]] = dict(a)
        if before.nodes:
            last_in_order = list(before.nodes)[-1]
            highest = max(before.nodes)
            candidates = {(before.nodes[c]['resid'], before.nodes[c]['charge_group']) for c in (last_in_order, highest)}
        else:
            candidates = {(0, 0)}
        shifts = set()
        for k, a in dmodel.nodes.items():
            got = res_nodes[corr[k]]
            shifts.add((got[1] - a['resid'], got[2] - a['charge_group']))
        if len(shifts) != 1 or not (shifts <= candidates):
            found.append(('%s:shift' % name, '%s: newcomer (resid, charge group) shifts %r, receiver last atom gives %r' % (
                label, sorted(shifts), sorted(candidates))))
            shift = next(iter(shifts))
        else:
            shift = next(iter(shifts))
        # keep model node order = implementation order for the comparison of everything else
        for k in order:
            if k in after.nodes:
                continue
        for k, a in dmodel.nodes.items():
            new = dict(a)
            new['resid'] = a['resid'] + shift[0]
            new['charge_group'] = a['charge_group'] + shift[1]
            after.nodes[corr[k]] = new
        after.citations = set(before.citations) | set(dmodel.citations)
        after.edges = {frozenset(receiver_map[x] for x in e) for e in before.edges} | \
                      {frozenset(corr[x] for x in e) for e in dmodel.edges}
        for t, lst in before.inter.items():
            after.inter[t] = [[tuple(receiver_map[x] for x in a), p, v] for a, p, v in lst]
        for t, lst in dmodel.inter.items():
            after.inter.setdefault(t, []).extend([tuple(corr[x] for x in a), p, v] for a, p, v in lst)
        world['impl'][slot] = result
        world['model'][slot] = after
        want = after.abstract()
        if sorted(map(tuple, want['nodes'])) != sorted(map(tuple, res['nodes'])):
            found.append(('%s:atoms-changed' % name, '%s: atoms %r, expected %r' % (label, res['nodes'], want['nodes'])))
        elif want['edges'] != res['edges']:
            found.append(('%s:bonds-changed' % name, '%s: bonds %r, expected %r' % (label, res['edges'], want['edges'])))
        elif want['inter'] != res['inter']:
            found.append(('%s:interactions-changed' % name, '%s: interactions %r, expected %r' % (label, res['inter'], want['inter'])))
        if not found:
            # model node order follows the implementation from here on
            ordered = ModelMol()
            ordered.nodes = {k: after.nodes[k] for k in order}
            ordered.edges, ordered.inter, ordered.citations = after.edges, after.inter, after.citations
            world['model'][slot] = ordered
        found.extend(self.compare(world, label, name))
        return found


explore.register('c12', Spec())


def run(ctx):
    import os
    depth = int(os.environ.get('VERIF_C12_DEPTH', 4 if ctx.quick else 5))
    ctx.bound = {'history_depth': depth, 'initial_states': 3}
    acc = Acc()
    explore.bfs('c12', depth, acc)
    ctx.layer('edit-histories', acc)
    ctx.extra.update(acc.extra)


def replay(case):
    common.bind_repo()
    return explore.replay('c12', case)
