"""
Topology-level agreement through the real program (shared by C01, C02, C03).

Scenarios: 1-3 chains cut from ala5.pdb (P = five residues, S = the first three, Q = residues 2-5), every chain translated,
chain identifiers in file order or reversed (B listed before A), residue numbers as in the file / shifted per chain (a
homo-dimer whose chains differ only in numbering) / starting at 0; options: none, -sep, -merge A,B, -resid input, and
-resid input together with -merge / -elastic.

Oracle (read back with mc/readers.py, never with vermouth):
  * [ molecules ] is a run-length encoding; every molecule type is included once; one TER per molecule;
  * the k-th coordinate record of every molecule equals the k-th atom of the ITP its type name points at, in atom name,
    residue name AND residue number (C02: the ITP states that molecule; C03: files agree atom for atom);
  * residue numbers (C01): with -resid input the residues of every molecule carry the input numbers of the residues they
    were made from, in input order; otherwise they are numbered consecutively from 1 within the molecule.
"""
import itertools
import os
import shutil
import tempfile

from mc import common, readers
from mc.common import Acc

KEEP = {'P': range(1, 6), 'S': range(1, 4), 'Q': range(2, 6)}


def cli_input(chains, chain_ids, offsets):
    src = [l.rstrip('\n').ljust(80) for l in open(os.path.join(common.REPO, 'vermouth', 'tests', 'data', 'ala5.pdb')) if l.startswith('ATOM')]
    lines = []
    serial = 1
    numbers = []
    for cidx, kind in enumerate(chains):
        here = []
        for line in src:
            resid = int(line[22:26])
            if resid not in KEEP[kind]:
                continue
            new = resid + offsets[cidx]
            if new not in here:
                here.append(new)
            x, y, z = float(line[30:38]), float(line[38:46]), float(line[46:54])
            lines.append('%s%5d %s%s%4d%s%8.3f%8.3f%8.3f%s' % (line[:6], serial, line[12:21], chain_ids[cidx], new, line[26:30],
                                                              x, y + 30.0 * cidx, z + 10.0 * cidx, line[54:]))
            serial += 1
        lines.append('TER')
        numbers.append(here)
    return '\n'.join(lines) + '\nEND\n', numbers


def collapse(values):
    out = []
    for v in values:
        if not out or out[-1] != v:
            out.append(v)
    return out


def check_scenario(scen, acc, base, prefix='cli'):
    from mc import cli
    chains, chain_ids, offsets, extra = scen
    case = {'layer': 'cli-topology', 'chains': list(chains), 'chain_ids': list(chain_ids), 'offsets': list(offsets), 'options': list(extra)}
    work = tempfile.mkdtemp(dir=base)
    text, numbers = cli_input(chains, chain_ids, offsets)
    with open(os.path.join(work, 'in.pdb'), 'w') as handle:
        handle.write(text)
    res = cli.run_inprocess(['-f', 'in.pdb', '-x', 'cg.pdb', '-o', 'topol.top', '-maxwarn', '100'] + list(extra), work)
    if res['exit'] != 0:
        acc.case(outcome=('cli', 'exit', res['exit']))
        acc.violation('%s:run-failed' % prefix, 'martinize2 %r on chains %r exits %r\n%s' % (extra, chains, res['exit'], res['stderr'][-500:]), case)
        shutil.rmtree(work, ignore_errors=True)
        return
    problems = []
    top = readers.read_top(open(os.path.join(work, 'topol.top')).read())
    pdb = readers.read_pdb(open(os.path.join(work, 'cg.pdb')).read())
    names = [n for n, count in top['molecules'] for _ in range(count)]
    incl = [i for i in top['includes'] if i != 'martini.itp']
    itps = {}
    for name in set(names):
        path = os.path.join(work, '%s.itp' % name)
        if not os.path.exists(path):
            problems.append(('%s:itp-missing' % prefix, 'no %s.itp written' % name))
        else:
            itps[name] = readers.read_itp(open(path).read())
    for name in sorted(set(names)):
        if incl.count('%s.itp' % name) != 1:
            problems.append(('%s:include-count' % prefix, '#include "%s.itp" appears %d times (%r)' % (name, incl.count('%s.itp' % name), incl)))
            break
    if [t for t in top['molecules'] if t[1] < 1] or any(a[0] == b[0] for a, b in zip(top['molecules'], top['molecules'][1:])):
        problems.append(('%s:molecules-section' % prefix, '[ molecules ] is not a run-length encoding: %r' % (top['molecules'],)))
    merged = '-merge' in extra
    elastic_all = '-eunit' in extra
    if not merged and len(names) != len(chains):
        problems.append(('%s:molecules-section' % prefix, '%d molecules listed for %d chains' % (len(names), len(chains))))
    bounds = [0] + pdb['ters']
    if not problems and len(pdb['ters']) != len(names):
        problems.append(('%s:ter-count' % prefix, '%d TER records for %d molecules' % (len(pdb['ters']), len(names))))
    if not problems:
        for midx, name in enumerate(names):
            records = pdb['atoms'][bounds[midx]:bounds[midx + 1]]
            atoms = itps[name]['atoms']
            if len(records) != len(atoms):
                problems.append(('%s:atom-count' % prefix, 'molecule %d (%s): %d coordinate records, %d ITP atoms' % (midx, name, len(records), len(atoms))))
                break
            bad = [(k + 1, (r['atomname'].strip(), r['resname'].strip(), int(r['resid'])), (a['atomname'], a['resname'], int(a['resid'])))
                   for k, (r, a) in enumerate(zip(records, atoms))
                   if (r['atomname'].strip(), r['resname'].strip(), int(r['resid'])) != (a['atomname'], a['resname'], int(a['resid']))]
            if bad:
                problems.append(('%s:pdb-itp-disagree' % prefix, 'molecule %d (%s): coordinate records differ from the atoms of its ITP '
                                 '(record k, (name, residue, number) in PDB, in ITP): %r' % (midx, name, bad[:2])))
                break
    if not problems:
        # residue numbers per molecule, from the coordinate file (which was just shown to agree with the ITPs)
        if merged:
            groups = [list(range(len(chains)))] if (extra[extra.index('-merge') + 1] == 'all' or len(chains) == 2) else \
                [[i for i in range(len(chains)) if chain_ids[i] in 'AB']] + [[i] for i in range(len(chains)) if chain_ids[i] not in 'AB']
        else:
            groups = [[i] for i in range(len(chains))]
        if len(groups) == len(names):
            for midx, group in enumerate(groups):
                records = pdb['atoms'][bounds[midx]:bounds[midx + 1]]
                got = collapse([int(r['resid']) for r in records])
                if '-resid' in extra:
                    want_options = [[n for i in order for n in numbers[i]] for order in itertools.permutations(group)]
                else:
                    total = sum(len(numbers[i]) for i in group)
                    want_options = [list(range(1, total + 1))]
                if '-resid' not in extra and len(group) > 1:
                    # merged chains: each chain keeps a consecutive block and the blocks together are 1..total; in which order the
                    # blocks are LISTED after sorting by chain is not part of any statement
                    ok = sorted(got) == want_options[0] and len(got) == len(set(got))
                    runs = []
                    for value in got:
                        if runs and value == runs[-1][-1] + 1:
                            runs[-1].append(value)
                        else:
                            runs.append([value])
                    ok = ok and len(runs) <= len(group)
                    if ok:
                        continue
                if got not in want_options:
                    problems.append(('%s:residue-numbers' % prefix, 'molecule %d: residues numbered %r; %s gives %r' % (
                        midx, got, 'the input numbering (-resid input)' if '-resid' in extra else 'consecutive numbering', want_options[0])))
                    break
    acc.case(nontrivial=len(chains) > 1, outcome=('clitop', tuple(top['molecules']), tuple(extra)),
             sample=dict(case, molecules=top['molecules'], includes=incl) if acc.states % 7 == 0 else None)
    shutil.rmtree(work, ignore_errors=True)
    for sig, desc in problems[:1]:
        acc.violation(sig, desc, case)


def scenarios(tier):
    out = []
    option_sets = [[], ['-sep'], ['-resid', 'input']]
    for m in (1, 2, 3):
        for chains in itertools.product('PSQ', repeat=m):
            if tier == 'quick' and m == 3 and chains not in (('P', 'S', 'Q'), ('P', 'P', 'S'), ('S', 'P', 'P'), ('Q', 'Q', 'Q'), ('S', 'Q', 'S')):
                continue
            ids_list = ['ABC'[:m]] + (['BAC'[:m]] if m >= 2 else [])
            for ids in ids_list:
                offs = [(0,) * m, tuple(100 * i for i in range(m)), (-1,) * m]
                if tier == 'quick' and m == 3:
                    offs = offs[:2]
                for offsets in offs:
                    opts = list(option_sets)
                    if m >= 2:
                        opts += [['-merge', 'A,B'], ['-resid', 'input', '-merge', 'A,B'], ['-resid', 'input', '-elastic']]
                        if m == 2:
                            opts += [['-merge', 'all'], ['-resid', 'input', '-merge', 'all', '-elastic']]
                    if tier == 'quick' and (ids != 'ABC'[:m] or offsets != (0,) * m):
                        opts = [o for o in opts if o and o != ['-sep']]
                    for extra in opts:
                        out.append((chains, tuple(ids), offsets, extra))
    return out


def work(task):
    common.bind_repo()
    scens, prefix = task
    acc = Acc()
    base = tempfile.mkdtemp(prefix='verif_clitop_', dir='/dev/shm' if os.path.isdir('/dev/shm') else None)
    try:
        for scen in scens:
            check_scenario(scen, acc, base, prefix)
    finally:
        shutil.rmtree(base, ignore_errors=True)
    return acc


def run_layer(ctx, name='cli-topology'):
    scens = scenarios(ctx.tier)
    acc = Acc()
    for part in common.pmap(work, [(chunk, 'cli') for chunk in common.chunked(scens, max(1, -(-len(scens) // (4 * common.NPROC))))]):
        acc += part
    ctx.layer(name, acc)


def replay(case):
    common.bind_repo()
    acc = Acc()
    base = tempfile.mkdtemp(prefix='verif_clitopr_')
    try:
        check_scenario((tuple(case['chains']), tuple(case['chain_ids']), tuple(case['offsets']), list(case['options'])), acc, base)
    finally:
        shutil.rmtree(base, ignore_errors=True)
    return [(s, d) for s, d, _ in acc.violations]
