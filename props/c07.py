"""
C07 — no output from a run with unwaived warnings; existing files are never lost.

Layer 1 "protocol" (engine A): BFS over histories of deferred opens (w / a / r+ / wb, re-opens),
        files appearing from outside between open and finalisation, write() and close(), on real
        DeferredFileWriter instances in a private directory, against a dict file-system model.
Layer 2 "crash" (engine D): every history of <= k opens followed by write(); every step of the
        finalisation x {stop before, stop after, torn at 0 bytes, torn at half} x {temporary
        directory on the same file system, on another one (rename -> EXDEV)}; recovery invariant.
Layer 3 "writers-defer": every library writer with default arguments under an audit-hook monitor.
Layer 4 "cli-gate": bin/martinize2 runs (in-process driver bound to real sub-processes).
"""
import itertools
import os
import shutil

from mc import common, explore, crash
from mc.common import Acc

RULE = ("protocol: abstract states (directory contents, pending table, temporary directory) reached by every enabled "
        "operation up to the depth bound, from 6 initial directories; non-trivial = a pending file whose destination "
        "already exists, or a finalised backup; crash: every finalisation step x flavour x file-system mode of every "
        "history of opens up to the bound; non-trivial = at least one pre-existing file at the time of the crash")
ASSUMPTIONS = ["destinations that themselves look like another destination's backup name ('#a.1#') are not generated: the "
               "statement does not say what should happen when a run writes to the name its own backup will take; "
               "pre-existing and externally created '#a.N#' files are generated",
               "re-opening a pending path in a different mode is not generated (statement is silent)",
               "open(p, 'r+') is only generated when p exists or is pending",
               "crash points are the boundaries of Python-visible file operations plus torn copies/appends; "
               "no kernel-level reordering of unsynced blocks",
               "files created from outside between open and finalisation count as 'already there' at finalisation"]

PATHS = ['a', 'b', 'c.txt', 'sub/a']
INITIALS = {
    'none': [],
    'a': ['a'],
    'a+bak1': ['a', '#a.1#'],
    'a+bak2': ['a', '#a.2#'],
    'all': ['a', '#a.1#', '#a.2#', 'b', 'sub/a', 'c.txt'],
    'bak1': ['#a.1#'],
}
_ROOT = None


def root():
    global _ROOT
    if _ROOT is None or not os.path.isdir(_ROOT):
        base = '/dev/shm' if os.path.isdir('/dev/shm') else None
        import tempfile
        _ROOT = tempfile.mkdtemp(prefix='verif_c07_%d_' % os.getpid(), dir=base)
        import atexit
        atexit.register(shutil.rmtree, _ROOT, True)
    return _ROOT


def fresh_writer(tmpdir):
    from vermouth.file_writer import DeferredFileWriter
    writer = object.__new__(DeferredFileWriter)   # bypass the singleton metaclass: same class, fresh state
    DeferredFileWriter.__init__(writer)
    writer._tmpdir = tmpdir
    return writer


def listing(directory):
    out = {}
    for base, _, files in os.walk(directory):
        for name in files:
            full = os.path.join(base, name)
            with open(full, 'rb') as handle:
                out[os.path.relpath(full, directory)] = handle.read()
    return out


def backup_name(fs, path):
    """first free '#name.N#' next to path."""
    head, name = os.path.split(path)
    idx = 1
    while True:
        cand = os.path.join(head, '#%s.%d#' % (name, idx))
        if cand not in fs:
            return cand
        idx += 1


def model_finalise(fs, pending):
    fs = dict(fs)
    for path, mode, content in pending:
        if mode == 'a':
            fs[path] = fs.get(path, b'') + content
        else:
            if path in fs:
                fs[backup_name(fs, path)] = fs[path]
            fs[path] = content
    return fs


def impl_pending(world):
    """The writer's own pending table (hidden state), read defensively: its layout is an
    implementation detail, so fall back to a textual form if it changes."""
    out = []
    for entry in getattr(world['writer'], 'open_files', ()):
        try:
            out.append([os.path.relpath(str(entry[1]), world['work']), str(entry[2])])
        except Exception:   # pylint: disable=broad-except
            out.append([repr(entry).replace(world['base'], '')])
    return out


def hidden_state(world):
    """Every instance attribute of the writer, with the random names of temporary files replaced by their order of
    appearance: two states are only merged when ALL of the writer's own state agrees, whatever attributes it has."""
    import re
    text = repr(sorted((k, repr(v)) for k, v in vars(world['writer']).items()))
    text = text.replace(world['base'], '')
    names = []
    for match in re.finditer(r'/tmp/([A-Za-z0-9_.-]+)', text):
        if match.group(1) not in names:
            names.append(match.group(1))
    for idx, name in enumerate(names):
        text = text.replace(name, 'T%d' % idx)
    return re.sub(r'0x[0-9a-f]+', '0x', text)


PREFIXES = {'discard-a': [['open', 'a', 'w'], ['close']], 'discard-b-append': [['open', 'b', 'a'], ['close']],
            'finalise-a': [['open', 'a', 'w'], ['write']]}


class Spec:
    def initials(self):
        # also start from states reached by a discarded or a finalised attempt (not only from untouched writers)
        return list(INITIALS) + ['%s~%s' % (i, p) for i in ('none', 'a', 'all') for p in PREFIXES]

    def build(self, initial):
        if '~' in initial:
            base_name, prefix = initial.split('~')
            world = self.build(base_name)
            for op in PREFIXES[prefix]:
                self.apply(world, op)       # violations on the way belong to the plain histories and are reported there
            world['finalised'] = 0
            return world
        import tempfile
        base = tempfile.mkdtemp(dir=root())
        work, tmp = os.path.join(base, 'work'), os.path.join(base, 'tmp')
        os.makedirs(os.path.join(work, 'sub'))
        os.makedirs(tmp)
        fs = {}
        for rel in INITIALS[initial]:
            content = ('old:%s;' % rel).encode() * 2
            with open(os.path.join(work, rel), 'wb') as handle:
                handle.write(content)
            fs[rel] = content
        return {'base': base, 'work': work, 'tmp': tmp, 'writer': fresh_writer(tmp),
                'fs': fs, 'pending': [], 'count': {}, 'finalised': 0, 'initial_fs': dict(fs)}

    def dispose(self, world):
        try:
            world['writer'].close()
        except Exception:
            pass
        shutil.rmtree(world['base'], ignore_errors=True)

    def enabled(self, world):
        ops = []
        pend = {p: m for p, m, _ in world['pending']}
        for path in PATHS:
            for mode in ('w', 'a', 'r+'):
                if path in pend:
                    if pend[path] != mode:
                        continue
                elif mode == 'r+' and path not in world['fs']:
                    continue
                ops.append(['open', path, mode])
        if 'b' not in pend:
            ops.append(['open', 'b', 'wb'])
        for path in ('a', '#a.1#'):
            if path not in world['fs']:
                ops.append(['ext', path])
        if world['pending']:
            ops += [['write'], ['close']]
        elif world['finalised'] < 2:
            ops += [['write']]
        return ops

    def interesting(self, world):
        return any(p in world['fs'] for p, _, _ in world['pending']) or any(k.count('#') >= 2 for k in world['fs'])

    def canon(self, world):
        return {'dir': sorted((k, v.decode()) for k, v in listing(world['work']).items()),
                'pending': [[p, m, c.decode()] for p, m, c in world['pending']],
                'impl_pending': impl_pending(world),
                'hidden': hidden_state(world),
                'tmp': sorted(v.decode() for v in listing(world['tmp']).values())}

    def token(self, world, path, mode):
        n = world['count'].get(path, 0)
        world['count'][path] = n + 1
        return ('%s%d:%s;' % (mode, n, path)).encode() * 2

    def apply(self, world, op):
        found = []
        name = op[0]
        writer = world['writer']
        label = '/'.join(op)
        try:
            if name == 'open':
                _, path, mode = op
                data = self.token(world, path, mode)
                real_mode = mode
                binary = 'b' in mode
                with writer.open(os.path.join(world['work'], path), real_mode) as handle:
                    handle.write(data if binary else data.decode())
                base_mode = 'w' if mode == 'wb' else mode
                for entry in world['pending']:
                    if entry[0] == path:
                        if base_mode == 'w':
                            entry[2] = data
                        elif base_mode == 'a':
                            entry[2] = entry[2] + data
                        else:
                            entry[2] = data + entry[2][len(data):]
                        break
                else:
                    if base_mode == 'r+':
                        old = world['fs'][path]
                        content = data + old[len(data):]
                    else:
                        content = data
                    world['pending'].append([path, base_mode, content])
            elif name == 'ext':
                path = op[1]
                data = ('ext:%s;' % path).encode() * 2
                with open(os.path.join(world['work'], path), 'wb') as handle:
                    handle.write(data)
                world['fs'][path] = data
            elif name == 'write':
                before = dict(world['fs'])
                world['fs'] = model_finalise(world['fs'], world['pending'])
                world['pending'] = []
                world['finalised'] += 1
                writer.write()
                got = listing(world['work'])
                if got != world['fs']:
                    present = list(got.values())
                    lost = [p for p, c in before.items() if not any(v == c or v.startswith(c) for v in present)]
                    if lost:
                        found.append(('finalise:existing-file-lost', 'after %s the content of pre-existing %r is gone; directory %r' % (
                            label, lost, sorted(got))))
                    else:
                        found.append(('finalise:content-mismatch', 'after write() directory is %r, expected %r' % (got, world['fs'])))
            elif name == 'close':
                world['pending'] = []
                writer.close()
            else:
                raise common.HarnessError('unknown op %r' % (op,))
        except common.HarnessError:
            raise
        except Exception as err:   # pylint: disable=broad-except
            found.append(('%s:exception' % name, '%s raised %r' % (label, err)))
            return found
        if found:
            return found
        # invariants of every state
        got = listing(world['work'])
        if got != world['fs']:
            found.append(('%s:destination-touched' % name,
                          'after %s the directory is %r, expected %r (destinations must stay untouched until write())' % (
                              label, got, world['fs'])))
        tmp = sorted(listing(world['tmp']).values())
        want_tmp = sorted(c for _, _, c in world['pending'])
        if tmp != want_tmp:
            kind = 'tmp-leftover' if name in ('write', 'close') else 'tmp-content'
            found.append(('%s:%s' % (name, kind), 'after %s temporary directory holds %r, expected %r' % (label, tmp, want_tmp)))
        return found


explore.register('c07', Spec())
SPEC = Spec()


# ------------------------------------------------------------------------------ layer 2

def crash_histories(max_opens):
    """All sequences of 1..max_opens opens (model-enabled), each to be followed by write()."""
    for initial in INITIALS:
        world = SPEC.build(initial)
        first = [op for op in SPEC.enabled(world) if op[0] == 'open']
        SPEC.dispose(world)
        stack = [[op] for op in first]
        while stack:
            hist = stack.pop()
            yield initial, hist
            if len(hist) < max_opens:
                world = explore.rebuild(SPEC, initial, hist)
                nxt = [op for op in SPEC.enabled(world) if op[0] == 'open']
                SPEC.dispose(world)
                stack.extend(hist + [op] for op in nxt)


def recovery_ok(fs_before, pending, got):
    """Every pre-existing file's bytes are found, complete, under its own or a backup name
    (for an append destination: at the start of the file that carries its name)."""
    bad = []
    append_dest = {p for p, m, _ in pending if m == 'a'}
    for path, content in fs_before.items():
        head, name = os.path.split(path)
        ok = got.get(path) == content
        if not ok and path in append_dest and got.get(path, b'').startswith(content):
            ok = True
        if not ok:
            prefix = os.path.join(head, '#%s.' % name)
            for other, data in got.items():
                if other.startswith(prefix) and other.endswith('#') and other[len(prefix):-1].isdigit() and data == content:
                    ok = True
                    break
        if not ok:
            bad.append(path)
    return bad


def crash_one(initial, hist, exdev, acc, only=None):
    import vermouth.file_writer as fw
    # dry run under the seam: counts the steps and must behave exactly like the unpatched run
    world = explore.rebuild(SPEC, initial, hist)
    fs_before, pending = dict(world['fs']), [list(p) for p in world['pending']]
    expected = model_finalise(fs_before, pending)
    seam = crash.FaultSeam(fw, tmpdir=world['tmp'], exdev=exdev)
    try:
        with seam:
            world['writer'].write()
        got = listing(world['work'])
    except Exception as err:   # pylint: disable=broad-except
        got = 'exception %r' % (err,)
    steps, data_steps, log = seam.count, set(seam.data_steps), list(seam.log)
    SPEC.dispose(world)
    case = {'layer': 'crash', 'initial': initial, 'history': hist, 'exdev': exdev}
    acc.case(nontrivial=bool(fs_before), outcome=('dry', len(log), exdev), transitions=1,
             sample=dict(case, steps=[list(x) for x in log]) if acc.states % 211 == 0 else None)
    if got != expected:
        acc.violation('crash:dry-run-mismatch', 'finalisation under the (inactive) seam gave %r, expected %r' % (got, expected), case)
        return
    for k in range(steps):
        flavours = ['before', 'after'] + (['torn0', 'torn'] if k in data_steps else [])
        for flavour in flavours:
            if only and (k, flavour) != only:
                continue
            world = explore.rebuild(SPEC, initial, hist)
            seam = crash.FaultSeam(fw, tmpdir=world['tmp'], crash_at=k, flavour=flavour, exdev=exdev)
            crashed = False
            try:
                with seam:
                    world['writer'].write()
            except crash.Crash:
                crashed = True
            except Exception as err:   # pylint: disable=broad-except
                acc.violation('crash:exception', 'fault %s@%d made write() raise %r' % (flavour, k, err),
                              dict(case, at=k, flavour=flavour))
            got = listing(world['work'])
            SPEC.dispose(world)
            if not crashed and not (flavour == 'after' and k == steps - 1):
                # the seam must have fired: same history, same steps (determinism of the harness)
                raise common.HarnessError('crash point %d/%s did not fire for %r %r' % (k, flavour, initial, hist))
            bad = recovery_ok(fs_before, pending, got)
            acc.case(nontrivial=bool(fs_before), outcome=('crash', sorted(got), flavour), transitions=1)
            if bad:
                acc.violation('crash:existing-file-lost',
                              'interrupted %s step %d (%s %s)%s: pre-existing %r is neither intact under its own nor under a backup name; '
                              'directory now %r' % (flavour, k, log[k][0], os.path.basename(log[k][1]), ' [tmp on other fs]' if exdev else '',
                                                    bad, {p: v.decode() for p, v in got.items()}),
                              dict(case, at=k, flavour=flavour))


def crash_work(task):
    common.bind_repo()
    acc = Acc()
    for initial, hist in task:
        for exdev in (False, True):
            crash_one(initial, hist, exdev, acc)
    return acc


# ------------------------------------------------------------------------------ run

def run(ctx):
    depth = 3 if ctx.quick else 4
    opens = 2 if ctx.quick else 3
    ctx.bound = {'protocol_depth': depth, 'crash_history_opens': opens, 'initial_directories': len(INITIALS)}
    acc = Acc()
    explore.bfs('c07', depth, acc, chunk=32)
    ctx.layer('protocol', acc)
    acc = Acc()
    hists = list(crash_histories(opens))
    for part in common.pmap(crash_work, list(common.chunked(hists, max(1, len(hists) // 64)))):
        acc += part
    acc.extra['crash_histories'] = len(hists)
    ctx.layer('crash', acc)
    from props import c07_writers, c07_cli
    c07_writers.run_layer(ctx)
    c07_cli.run_layer(ctx)
    shutil.rmtree(root(), ignore_errors=True)


def replay(case):
    common.bind_repo()
    layer = case.get('layer')
    if layer == 'crash':
        acc = Acc()
        only = (case['at'], case['flavour']) if 'at' in case else None
        crash_one(case['initial'], [list(op) for op in case['history']], case['exdev'], acc, only=only)
        return [(s, d) for s, d, _ in acc.violations]
    if layer == 'writers':
        from props import c07_writers
        return c07_writers.replay(case)
    if layer == 'cli':
        from props import c07_cli
        return c07_cli.replay(case)
    return explore.replay('c07', case)
