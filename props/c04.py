"""
C04 — atoms are identified by connectivity, not by the names in the input.

Engine C (deviation-bounded presentations).  The canonical presentation of a residue is the shipped
block itself (names, order, bonds; elements given explicitly as a PDB does).  Elementary deviations:
  swap-names(i,j)   exchange the names of two atoms (same or different element)
  swap-order(i,j)   exchange two atoms in node order
  rename(i)         give one atom a fresh name
  delete(i)         remove one atom (a non-cut atom, so the residue stays connected)
  strip-h           remove all hydrogens (the usual content of a PDB file); also combined with every other deviation
  delete-heavy(i[,j]) remove one heavy atom, or two bonded heavy atoms, together with the hydrogens they carry
  delete-pair(i,j)  remove two ADJACENT atoms (a gap with known atoms on both sides) where the rest stays connected
  attach(i,E)       attach one extra atom of element E in {H, O, C} to a heavy atom
EVERY presentation with 0, then 1 (then 2) deviations of EVERY block of the chosen force fields is
repaired with the real RepairGraph.  For blocks of <= 7 atoms ALL name permutations are run as well.
Oracle (absolute): names unique among recognised atoms; name -> block atom injective, element-preserving,
induced-bond-preserving; every block atom present; #unrecognised == #attached atoms (the original atoms
still induce the whole block, which is the largest possible match); scrambles add nothing and flag nothing.
"""
import itertools

from mc import common
from mc.common import Acc

RULE = ("every presentation within the deviation bound of every block of the listed force fields; distinct = distinct "
        "(force field, block, deviation tuple); non-trivial = at least one deviation")
ASSUMPTIONS = ["block atoms without any bond (lone-pair sites) are never deleted: they cannot be placed by connectivity",
               "two-deviation presentations whose largest match is not known by construction (a removed leaf re-attached, overlapping "
               "removals) are not generated",
               "elements are those of the canonical block atoms (first letter rule of the library) and stay with the atom when names are swapped",
               "deleted atoms are non-cut vertices; attached atoms go on heavy atoms",
               "mutation/modification requests: tripeptides of charmm blocks with the requests of the C19 repair layer (shared code)"]
_FF = {}


def load_ff(name):
    if name not in _FF:
        import pathlib
        import vermouth
        import vermouth.forcefield
        _FF[name] = vermouth.forcefield.ForceField(pathlib.Path(vermouth.DATA_PATH) / 'force_fields' / name)
    return _FF[name]


def block_info(block):
    from vermouth.utils import first_alpha
    keys = list(block.nodes)
    names = [block.nodes[k]['atomname'] for k in keys]
    elements = [first_alpha(n) for n in names]
    index = {k: i for i, k in enumerate(keys)}
    edges = sorted(tuple(sorted((index[a], index[b]))) for a, b in block.edges)
    return names, elements, edges


def apply_deviations(names, elements, edges, devs):
    """Returns the presentation: list of atoms (name, element, origin index or None) in node order, edges on positions,
    n_attached, deleted set."""
    n = len(names)
    cur_names = list(names)
    order = list(range(n))
    deleted = set()
    attached = []      # (anchor origin index, element)
    for dev in devs:
        kind = dev[0]
        if kind == 'swap-names':
            i, j = dev[1], dev[2]
            cur_names[i], cur_names[j] = cur_names[j], cur_names[i]
        elif kind == 'swap-order':
            i, j = dev[1], dev[2]
            pi, pj = order.index(i), order.index(j)
            order[pi], order[pj] = order[pj], order[pi]
        elif kind == 'rename':
            cur_names[dev[1]] = 'ZQ%d' % dev[1]
        elif kind == 'delete':
            deleted.add(dev[1])
        elif kind == 'delete-pair':
            deleted.add(dev[1])
            deleted.add(dev[2])
        elif kind == 'strip-h':
            deleted.update(i for i in range(n) if elements[i] == 'H')
        elif kind == 'delete-heavy':
            # heavy atoms go missing together with the hydrogens they carry
            for heavy in dev[1:]:
                deleted.add(heavy)
                deleted.update(j for a, b in edges for i, j in ((a, b), (b, a)) if i == heavy and elements[j] == 'H')
        elif kind == 'attach':
            attached.append((dev[1], dev[2]))
        elif kind == 'permute-names':
            perm = dev[1]
            cur_names = [names[perm[i]] for i in range(n)]
        else:
            raise common.HarnessError('unknown deviation %r' % (dev,))
    attached = [(anchor, element) for anchor, element in attached if anchor not in deleted]
    atoms = [(cur_names[i], elements[i], i) for i in order if i not in deleted]
    pos = {origin: p for p, (_, _, origin) in enumerate(atoms)}
    pres_edges = [(pos[a], pos[b]) for a, b in edges if a in pos and b in pos]
    for k, (anchor, element) in enumerate(attached):
        atoms.append(('%sX%d' % (element, k + 1), element, None))
        pres_edges.append((pos[anchor], len(atoms) - 1))
    n_attached = sum(1 for a in atoms if a[2] is None)
    return atoms, pres_edges, n_attached, deleted


def check(ffname, blockname, devs, acc, sample=False):
    import networkx as nx
    import vermouth
    from vermouth.processors.repair_graph import RepairGraph
    ff = load_ff(ffname)
    block = ff.blocks[blockname]
    names, elements, edges = block_info(block)
    case = {'ff': ffname, 'block': blockname, 'deviations': [[d[0], list(d[1])] if d[0] == 'permute-names' else list(d) for d in devs]}
    atoms, pres_edges, n_attached, deleted = apply_deviations(names, elements, edges, devs)
    mol = vermouth.molecule.Molecule(force_field=ff)
    for key, (name, element, _) in enumerate(atoms):
        mol.add_node(key, atomname=name, element=element, resname=blockname, resid=1, chain='A')
    mol.add_edges_from(pres_edges)
    try:
        with common.LogCapture():
            out = RepairGraph().run_molecule(mol)
    except Exception as err:   # pylint: disable=broad-except
        acc.case(outcome='exc')
        acc.violation('c04:exception', 'RepairGraph raised %r' % (err,), case)
        return
    problems = []
    recognised = [(k, d) for k, d in out.nodes(data=True) if not d.get('PTM_atom')]
    flagged = [(k, d) for k, d in out.nodes(data=True) if d.get('PTM_atom')]
    block_by_name = {}
    for i, name in enumerate(names):
        block_by_name[name] = i
    block_adj = {frozenset(e) for e in edges}
    rec_names = [d.get('atomname') for _, d in recognised]
    if len(rec_names) != len(set(rec_names)):
        dup = sorted({x for x in rec_names if rec_names.count(x) > 1})
        problems.append(('c04:names-not-unique', 'recognised atoms share names %r' % (dup,)))
    elif any(name not in block_by_name for name in rec_names):
        problems.append(('c04:non-canonical-name', 'recognised atoms carry names that are not block atoms: %r' % (
            sorted(x for x in rec_names if x not in block_by_name),)))
    else:
        to_block = {k: block_by_name[d['atomname']] for k, d in recognised}
        for k, d in recognised:
            if d.get('element') != elements[to_block[k]]:
                problems.append(('c04:element-not-preserved', 'atom of element %r was named %s (element %r in the block)' % (
                    d.get('element'), d['atomname'], elements[to_block[k]])))
                break
        if not problems:
            for (a, _), (b, _) in itertools.combinations(recognised, 2):
                have = out.has_edge(a, b)
                want = frozenset((to_block[a], to_block[b])) in block_adj
                if have != want:
                    problems.append(('c04:bonds-not-preserved', 'atoms named %s and %s are %sbonded in the result but %sbonded in the block' % (
                        out.nodes[a]['atomname'], out.nodes[b]['atomname'], '' if have else 'not ', '' if want else 'not ')))
                    break
        if not problems and len(recognised) != len(names):
            missing = sorted(set(names) - set(rec_names))
            problems.append(('c04:block-atom-missing', 'block atoms %r are absent after repair' % (missing,)))
    if not problems and len(flagged) != n_attached:
        kind = 'too-many-unrecognised' if len(flagged) > n_attached else 'attached-atom-not-flagged'
        problems.append(('c04:%s' % kind, '%d atoms marked unrecognised, %d atoms were attached beyond the block (largest match = whole block)' % (
            len(flagged), n_attached)))
    if not problems:
        added = len(out) - len(atoms)
        if added != len(deleted):
            problems.append(('c04:atoms-added', '%d atoms added although %d were missing' % (added, len(deleted))))
    acc.case(nontrivial=bool(devs), outcome=(ffname, len(names), len(flagged), len(out) - len(atoms)),
             sample=dict(case, input_names=[a[0] for a in atoms]) if sample else None)
    for sig, desc in problems[:1]:
        acc.violation(sig, desc, case)


def single_deviations(names, elements, edges, tier):
    import networkx as nx
    n = len(names)
    graph = nx.Graph()
    graph.add_nodes_from(range(n))
    graph.add_edges_from(edges)
    cut = set(nx.articulation_points(graph)) if n > 2 else set()
    devs = []
    for i, j in itertools.combinations(range(n), 2):
        devs.append(('swap-names', i, j))
    for i, j in itertools.combinations(range(n), 2):
        devs.append(('swap-order', i, j))
    for i in range(n):
        devs.append(('rename', i))
    for i in range(n):
        # atoms without any bond in the block (lone-pair sites of some small molecules) cannot be placed by connectivity
        if i not in cut and n > 1 and graph.degree[i] > 0:
            devs.append(('delete', i))
    for i in range(n):
        if elements[i] != 'H':
            for element in ('H', 'O', 'C'):
                devs.append(('attach', i, element))
    heavy = [i for i in range(n) if elements[i] != 'H']
    skeleton = graph.subgraph(heavy)
    for i in heavy:
        if graph.degree[i] == 0:
            continue
        rest = skeleton.subgraph(set(heavy) - {i})
        if len(rest) >= 1 and nx.is_connected(rest):
            devs.append(('delete-heavy', i))
    for i, j in skeleton.edges:
        rest = skeleton.subgraph(set(heavy) - {i, j})
        if len(rest) >= 1 and nx.is_connected(rest):
            devs.append(('delete-heavy', i, j))
    # a gap of two ADJACENT missing atoms whose removal leaves the rest of the residue connected
    for i, j in edges:
        rest = graph.subgraph(set(range(n)) - {i, j})
        if len(rest) >= 1 and nx.is_connected(rest):
            devs.append(('delete-pair', i, j))
    return devs


def block_tasks(ffname, blockname, tier, depth):
    ff = load_ff(ffname)
    names, elements, edges = block_info(ff.blocks[blockname])
    singles = single_deviations(names, elements, edges, tier)
    out = [()]
    out.extend((d,) for d in singles)
    if 'H' in elements:
        out.append((('strip-h',),))
        for d in singles:
            touched = [x for x in d[1:] if isinstance(x, int)]
            if d[0] in ('delete-pair',) or any(elements[x] == 'H' for x in touched):
                continue
            if d[0] == 'attach' and d[2] == 'H':
                continue
            out.append((('strip-h',), d))
    if len(names) <= 7:
        for perm in itertools.permutations(range(len(names))):
            out.append((('permute-names', perm),))
    if depth >= 2:
        if len(names) <= 10:
            degree = {}
            for x, y in edges:
                degree[x] = degree.get(x, 0) + 1
                degree[y] = degree.get(y, 0) + 1
            nbr = {}
            for x, y in edges:
                nbr.setdefault(x, []).append(y)
                nbr.setdefault(y, []).append(x)
            for a, b in itertools.combinations(singles, 2):
                kinds = {a[0], b[0]}
                if kinds == {'delete', 'attach'}:
                    dele, att = (a, b) if a[0] == 'delete' else (b, a)
                    # removing a leaf and attaching the same element to its neighbour is the canonical residue again
                    if degree.get(dele[1], 0) == 1 and nbr[dele[1]][0] == att[1] and elements[dele[1]] == att[2]:
                        continue
                removal = {'delete-heavy', 'delete-pair'}
                if (a[0] in removal and b[0] in removal | {'delete', 'attach'}) or (b[0] in removal and a[0] in removal | {'delete', 'attach'}):
                    continue      # overlapping removals / attachments onto removed atoms: expectation not known by construction
                out.append((a, b))
        else:
            swaps = [d for d in singles if d[0] == 'swap-names']
            others = [d for d in singles if d[0] in ('delete', 'attach')]
            # the pairs that interact through the name-biased node ordering
            for a, b in itertools.combinations(swaps, 2):
                if len({a[1], a[2], b[1], b[2]}) < 4 or (a[1] + b[1]) % 5 == 0:
                    out.append((a, b))
            for a in swaps[::3]:
                for b in others:
                    out.append((a, b))
    return out


def check_pair(ffname, first, second, naming, acc, sample=False, heavy_only=False):
    """Two residues in ONE molecule (they share whatever the repair keeps per molecule), bonded C-N when both have
    these atoms.  naming: 'canonical' | 'junk' (every atom called X<k>) | 'none' (no atom names at all)."""
    import vermouth
    from vermouth.processors.repair_graph import RepairGraph
    ff = load_ff(ffname)
    case = {'layer': 'pairs', 'ff': ffname, 'first': first, 'second': second, 'naming': naming, 'heavy_only': heavy_only}
    mol = vermouth.molecule.Molecule(force_field=ff)
    key = 0
    info = []
    link = {}
    icode = heavy_only == 'icode'      # all atoms present; both residues numbered 5 and told apart by the insertion code only
    if icode:
        heavy_only = False
    for resid, blockname in enumerate((first, second), start=1):
        names, elements, edges = block_info(ff.blocks[blockname])
        base = key
        local = {}
        for idx, (name, element) in enumerate(zip(names, elements)):
            if heavy_only and element == 'H':
                continue
            local[idx] = key
            attrs = {'element': element, 'resname': blockname, 'resid': resid, 'chain': 'A'}
            if icode:
                attrs.update(resid=5, insertion_code=('', 'A')[resid - 1])
            if naming == 'canonical':
                attrs['atomname'] = name
            elif naming == 'junk':
                attrs['atomname'] = 'X%d' % idx
            mol.add_node(key, **attrs)
            if name in ('C', 'N'):
                link[(resid, name)] = key
            key += 1
        mol.add_edges_from((local[a], local[b]) for a, b in edges if a in local and b in local)
        info.append((blockname, names, elements, edges, base))
    if (1, 'C') in link and (2, 'N') in link:
        mol.add_edge(link[(1, 'C')], link[(2, 'N')])
    try:
        with common.LogCapture():
            out = RepairGraph().run_molecule(mol)
    except Exception as err:   # pylint: disable=broad-except
        acc.case(outcome='exc')
        acc.violation('c04:pair-exception', 'RepairGraph raised %r' % (err,), case)
        return
    problems = []
    for resid, (blockname, names, elements, edges, base) in enumerate(info, start=1):
        def mine(d, resid=resid):
            return d.get('insertion_code', '') == ('', 'A')[resid - 1] if icode else d['resid'] == resid
        nodes = [(k, d) for k, d in out.nodes(data=True) if mine(d)]
        flagged = [d.get('atomname') for _, d in nodes if d.get('PTM_atom')]
        got_names = sorted(str(d.get('atomname')) for _, d in nodes if not d.get('PTM_atom'))
        if flagged or len(nodes) != len(names):
            problems.append(('c04:pair-spurious-unrecognised', 'residue %d (%s, after %s): the input is an induced part of the block, yet %d atoms '
                             'are marked unrecognised and the residue has %d atoms instead of %d' % (
                                 resid, blockname, first if resid == 2 else '-', len(flagged), len(nodes), len(names))))
            break
        if got_names != sorted(names):
            problems.append(('c04:pair-names', 'residue %d (%s): names after repair %r, block has %r' % (resid, blockname, got_names, sorted(names))))
            break
        by_name = {d['atomname']: k for k, d in nodes}
        index = {n: i for i, n in enumerate(names)}
        badel = [d['atomname'] for k, d in nodes if d.get('element') != elements[index[d['atomname']]]]
        if badel:
            problems.append(('c04:pair-element-not-preserved', 'residue %d (%s): atoms %r got names of another element' % (resid, blockname, badel)))
            break
        want = {frozenset((names[a], names[b])) for a, b in edges}
        have = {frozenset((out.nodes[a]['atomname'], out.nodes[b]['atomname'])) for a, b in out.edges
                if mine(out.nodes[a]) and mine(out.nodes[b])}
        if want != have:
            problems.append(('c04:pair-bonds-not-preserved', 'residue %d (%s): bonds by name differ from the block: %r' % (
                resid, blockname, sorted(map(sorted, want ^ have))[:4])))
            break
    acc.case(nontrivial=naming != 'canonical', outcome=('pair', first, naming, len(out)), sample=case if sample else None)
    for sig, desc in problems[:1]:
        acc.violation(sig, desc, case)


def check_system(layout, acc):
    """Several molecules in one system through RepairGraph(delete_unknown=True).run_system (how bin/martinize2 calls it): 'K'
    = a residue of the force field with scrambled names, stripped hydrogens and a missing heavy atom, 'U' = a residue the force
    field does not know. Every K molecule must come back as the block (complete, canonical names), every U molecule must be
    gone, and the order of the others is kept."""
    import vermouth
    from vermouth.processors.repair_graph import RepairGraph
    ff = load_ff('amber')
    case = {'layer': 'system', 'layout': list(layout)}
    system = vermouth.System(force_field=ff)
    expected = []
    blocks = ['ALA', 'SER', 'GLY', 'VAL']
    for midx, kind in enumerate(layout):
        mol = vermouth.molecule.Molecule(force_field=ff)
        if kind == 'U':
            for key, (name, element) in enumerate((('Q1', 'C'), ('Q2', 'O'))):
                mol.add_node(key, atomname=name, element=element, resname='ZZZ', resid=1, chain='L')
            mol.add_edge(0, 1)
        else:
            blockname = blocks[midx % len(blocks)]
            names, elements, edges = block_info(ff.blocks[blockname])
            heavy = [i for i, e in enumerate(elements) if e != 'H']
            keep = heavy[:-1] if len(heavy) > 3 else heavy          # the last heavy atom is missing, all hydrogens are missing
            pos = {orig: new for new, orig in enumerate(keep)}
            for new, orig in enumerate(keep):
                mol.add_node(new, atomname='X%d' % new, element=elements[orig], resname=blockname, resid=1, chain='A')
            mol.add_edges_from((pos[a], pos[b]) for a, b in edges if a in pos and b in pos)
            expected.append((blockname, sorted(names)))
        system.molecules.append(mol)
    try:
        with common.LogCapture() as log:
            RepairGraph(delete_unknown=True).run_system(system)
    except Exception as err:   # pylint: disable=broad-except
        acc.case(outcome='exc')
        acc.violation('c04:system-exception', 'RepairGraph.run_system raised %r' % (err,), case)
        return
    got = []
    for mol in system.molecules:
        resnames = {d.get('resname') for _, d in mol.nodes(data=True)}
        got.append((sorted(resnames)[0] if len(resnames) == 1 else sorted(map(str, resnames)),
                    sorted(str(d.get('atomname')) for _, d in mol.nodes(data=True) if not d.get('PTM_atom'))))
    acc.case(nontrivial='U' in layout and 'K' in layout, outcome=('system', len(got), tuple(layout)))
    if got != expected:
        kept_unknown = any(name == 'ZZZ' for name, _ in got)
        sig = 'c04:system-unknown-molecule-kept' if kept_unknown else 'c04:system-molecule-not-repaired'
        acc.violation(sig, 'system %r: molecules after repair %r; expected the known ones, repaired, in order: %r' % (
            list(layout), [(n, len(a)) for n, a in got], [(n, len(a)) for n, a in expected]), case)


def work(task):
    common.bind_repo()
    if task[0] == 'systems':
        acc = Acc()
        for layout in task[1]:
            check_system(layout, acc)
        return acc
    if task[0] == 'requests':
        # residues repaired against a reference patched with requested mutations / modifications
        from props import c19_repair
        inner = Acc()
        c19_repair.work_items(task[1], inner)
        for idx, (sig, desc, case) in enumerate(inner.violations):
            inner.violations[idx] = ('c04:requested-' + sig.split(':', 1)[1], desc, dict(case, layer='requests'))
        return inner
    if task[0] == 'pairs':
        acc = Acc()
        for n, (ffname, first, second, naming, heavy_only) in enumerate(task[1]):
            check_pair(ffname, first, second, naming, acc, sample=(n % 101 == 0), heavy_only=heavy_only)
        return acc
    ffname, blockname, devs_list = task
    acc = Acc()
    for n, devs in enumerate(devs_list):
        check(ffname, blockname, devs, acc, sample=(n % 997 == 1))
    return acc


def selected_blocks(tier, seed):
    plan = []
    amber = sorted(load_ff('amber').blocks)
    plan += [('amber', b, 1) for b in amber]
    if tier != 'quick':
        plan += [('gromos', b, 1) for b in sorted(load_ff('gromos').blocks) if len(load_ff('gromos').blocks[b]) <= 40]
        charmm = load_ff('charmm')
        amino = [b for b in sorted(charmm.blocks) if b in set(amber) | {'HSD', 'HSE', 'HSP', 'ASPP', 'GLUP', 'LSN'}]
        plan += [('charmm', b, 1) for b in amino]
        # depth 2 on the small blocks of amber
        plan += [('amber', b, 2) for b in amber if len(load_ff('amber').blocks[b]) <= 12]
        # a seed-rotated slice of the charmm small molecules (capped by size)
        small = [b for b in sorted(charmm.blocks) if b not in amino and len(charmm.blocks[b]) <= 20]
        plan += [('charmm', b, 1) for b in small[seed % 23::23]]
    else:
        # one rotating extra block beyond the claimed amber set
        gromos = sorted(b for b in load_ff('gromos').blocks if len(load_ff('gromos').blocks[b]) <= 20)
        plan += [('gromos', gromos[seed % len(gromos)], 1)]
    return plan


def run(ctx):
    common.bind_repo()
    plan = selected_blocks(ctx.tier, ctx.seed)
    ctx.bound = {'deviations': 1 if ctx.quick else '1 (all listed force fields) and 2 (amber blocks <= 12 atoms)',
                 'blocks': len(plan), 'force_fields': sorted({p[0] for p in plan})}
    tasks = []
    for ffname, blockname, depth in plan:
        devs = block_tasks(ffname, blockname, ctx.tier, depth)
        for chunk in common.chunked(devs, 150):
            tasks.append((ffname, blockname, chunk))
    acc = Acc()
    for part in common.pmap(work, tasks, chunksize=1):
        acc += part
    acc.extra['blocks'] = len(plan)
    ctx.layer('presentations', acc)
    # every ordered pair of heavy-atom-sized blocks in one molecule, three namings
    amber = sorted(load_ff('amber').blocks)
    pairs = [('amber', a, b, naming, False) for a in amber for b in amber for naming in ('junk', 'none')
             if ctx.tier != 'quick' or (len(load_ff('amber').blocks[a]) <= 14 and len(load_ff('amber').blocks[b]) <= 14)]
    # heavy atoms only (the usual content of a PDB file): every ordered pair
    pairs += [('amber', a, b, naming, True) for a in amber for b in amber for naming in ('junk', 'none')]
    pairs += [('amber', a, b, 'canonical', h) for a in amber[::3] for b in amber[::4] for h in (False, True)]
    # two residues of one number told apart by their insertion codes only (5 and 5A), incl. twice the same residue name
    pairs += [('amber', a, b, naming, 'icode') for a in amber[::2] for b in ([a] + amber[1::5]) for naming in ('canonical', 'junk')
              if len(load_ff('amber').blocks[a]) <= 16 and len(load_ff('amber').blocks[b]) <= 16]
    acc = Acc()
    for part in common.pmap(work, [('pairs', chunk) for chunk in common.chunked(pairs, 24)]):
        acc += part
    ctx.layer('residue-pairs', acc)
    from props import c19_repair
    items = c19_repair.cases()
    acc = Acc()
    for part in common.pmap(work, [('requests', chunk) for chunk in common.chunked(items, max(1, len(items) // 8))]):
        acc += part
    ctx.layer('requested-mutations-and-modifications', acc)
    layouts = [l for n in range(1, 5 if ctx.quick else 6) for l in itertools.product('KU', repeat=n)]
    acc = Acc()
    for part in common.pmap(work, [('systems', chunk) for chunk in common.chunked(layouts, 4)]):
        acc += part
    ctx.layer('systems-with-unknown-molecules', acc)


def replay(case):
    common.bind_repo()
    acc = Acc()
    if case.get('layer') == 'requests':
        from props import c19_repair
        found = c19_repair.replay(case)
        return [('c04:requested-' + sig.split(':', 1)[1], desc) for sig, desc in found]
    if case.get('layer') == 'system':
        check_system(tuple(case['layout']), acc)
        return [(s, d) for s, d, _ in acc.violations]
    if case.get('layer') == 'pairs':
        check_pair(case['ff'], case['first'], case['second'], case['naming'], acc, heavy_only=case.get('heavy_only', False))
        return [(s, d) for s, d, _ in acc.violations]
    devs = tuple((d[0], tuple(d[1])) if d[0] == 'permute-names' else tuple(d) for d in case['deviations'])
    check(case['ff'], case['block'], devs, acc)
    return [(s, d) for s, d, _ in acc.violations]
