"""
C18 through bin/martinize2: -go <contact map file> with -go-low / -go-up / -go-eps / -go-res-dist as the program wires them.
The contact map file is generated here (published 18-column layout, residue numbers as in the input, both directions or one);
the Go potentials of go_nbparams.itp, the virtual sites and the backbone exclusions of the molecule's ITP are compared with the
statement evaluated on the backbone coordinates the same run wrote.
"""
import itertools
import math
import os
import shutil
import tempfile

from mc import common, cli, readers
from mc.common import Acc

OPTIONS = {
    'default': [],
    'eps12': ['-go-eps', '12'],
    'window': ['-go-low', '0.5', '-go-up', '0.9'],
    'resdist1': ['-go-res-dist', '1'],
    'resdist5-up': ['-go-res-dist', '5', '-go-up', '1.5'],
    # explicit zeros are values, not "use the default"
    'zeros': ['-go-res-dist', '0', '-go-low', '0', '-go-up', '0.8'],
}
CONTACT_SETS = ['all-symmetric', 'one-directional-mix', 'sparse']


def contacts_for(residues, kind):
    """residues: list of (chain, resid). Returns directed contacts [((chain, resid), (chain, resid))]."""
    out = []
    n = len(residues)
    for i, j in itertools.permutations(range(n), 2):
        if kind == 'all-symmetric':
            take = True
        elif kind == 'one-directional-mix':
            take = (i < j) or ((i + j) % 3 != 0)          # every third pair is listed in one direction only
        else:
            take = (i * j) % 4 == 0
        if take:
            out.append((residues[i], residues[j]))
    return out


def map_text(residues, contacts):
    index = {res: k + 1 for k, res in enumerate(residues)}
    lines = ['', 'Residue-Residue Contacts', 'ID  I1 AA C I(PDB)  I2 AA C I(PDB)  DCA  CMs  rCSU Count Model']
    for n, (a, b) in enumerate(contacts, 1):
        # the running indices I1/I2 are deliberately NOT the residue numbers
        lines.append('R %5d %4d ALA %s %4d %4d GLY %s %4d %9.4f 1 1 0 1 %5d %5d 0' % (n, index[a] + 40, a[0], a[1], index[b] + 40, b[0], b[1], 5.5, 3, 7))
    return '\n'.join(lines) + '\n'


def cli_case(item, acc):
    from props import c11
    name, kind, label = item
    opts = OPTIONS[label]
    case = {'layer': 'cli', 'input': name, 'contacts': kind, 'label': label}
    values = {'low': 0.3, 'up': 1.1, 'eps': 9.414, 'res_dist': 3}
    it = iter(opts)
    for flag in it:
        value = next(it)
        values[{'-go-low': 'low', '-go-up': 'up', '-go-eps': 'eps', '-go-res-dist': 'res_dist'}[flag]] = float(value) if flag != '-go-res-dist' else int(value)
    atoms = [dict(a) for a in c11.load_atoms(name.split('~')[0]) if a['element'] != 'H']
    if name.endswith('~from0'):
        # the same chain numbered from 0: a residue number that is falsy
        low = min(a['res'][1] for a in atoms)
        for atom in atoms:
            resid = atom['res'][1] - low
            atom['line'] = atom['line'][:22] + '%4d' % resid + atom['line'][26:]
            atom['res'] = (atom['res'][0], resid, atom['res'][2])
    residues = []
    for atom in atoms:
        key = (atom['res'][0], atom['res'][1])
        if key not in residues:
            residues.append(key)
    contacts = contacts_for(residues, kind) if kind != 'internal' else None
    base = tempfile.mkdtemp(prefix='verif_c18cli_', dir='/dev/shm' if os.path.isdir('/dev/shm') else None)
    try:
        with open(os.path.join(base, 'in.pdb'), 'w') as handle:
            handle.write(c11.render_pdb(atoms))
        if kind == 'internal':
            # the program computes the contact map itself and writes it out: that written map is the contact map of the statement
            go_args = ['-go', '-go-write-file', 'written.map']
        else:
            with open(os.path.join(base, 'contacts.map'), 'w') as handle:
                handle.write(map_text(residues, contacts))
            go_args = ['-go', 'contacts.map']
        res = cli.run_inprocess(['-f', 'in.pdb', '-x', 'cg.pdb', '-o', 'topol.top', '-maxwarn', '100'] + go_args + opts, base)
        if res['exit'] != 0:
            acc.case(outcome=('cli-exit', res['exit']))
            acc.violation('c18:cli-run-failed', 'martinize2 -go %r on %s exits %r\n%s' % (opts, name, res['exit'], res['stderr'][-400:]), case)
            return
        if kind == 'internal':
            # chains are merged before the map is computed: a later chain's numbers are shifted by the last number before it
            shift, offsets, last = 0, {}, None
            for chain, resid in residues:
                if last is not None and chain != last[0]:
                    shift = last[1] + offsets[last[0]]
                offsets.setdefault(chain, shift)
                last = (chain, resid)
            rows = []
            for raw in open(os.path.join(base, 'written.map')):
                tokens = raw.split()
                # (the map martinize2 writes has 17 columns: no trailing 'Model' column)
                if len(tokens) in (17, 18) and tokens[0] == 'R' and (tokens[11] == '1' or (tokens[11] == '0' and tokens[14] == '1')):
                    rows.append(((tokens[4], int(tokens[5])), (tokens[8], int(tokens[9]))))
            # chains that are bonded to each other were one molecule from the start and keep their numbers: per chain, take the
            # shift (the computed one or none) under which every number the map uses for that chain is a residue of the input
            for chain in list(offsets):
                used = {r for pair in rows for c, r in pair if c == chain}
                have = {r for c, r in residues if c == chain}
                if not {u - offsets[chain] for u in used} <= have and used <= have:
                    offsets[chain] = 0
            contacts = []
            for a, b in rows:
                a = (a[0], a[1] - offsets.get(a[0], 0))
                b = (b[0], b[1] - offsets.get(b[0], 0))
                contacts.append((a, b) if a in residues and b in residues else None)
            if None in contacts or not contacts:
                acc.case(outcome=('cli-internal-map', len(contacts)))
                acc.violation('c18:cli-written-map', 'the contact map martinize2 wrote names residues that are not in the input, or is empty '
                              '(%d contact lines)' % len(contacts), case)
                return
        nb_path = os.path.join(base, 'go_nbparams.itp')
        nb_lines = [l.split(';')[0].split() for l in open(nb_path)] if os.path.exists(nb_path) else []
        top = readers.read_top(open(os.path.join(base, 'topol.top')).read())
        mname = top['molecules'][0][0]
        itp = readers.read_itp(open(os.path.join(base, mname + '.itp')).read())
        pdb = readers.read_pdb(open(os.path.join(base, 'cg.pdb')).read())
    finally:
        shutil.rmtree(base, ignore_errors=True)
    problems = []
    records = pdb['atoms']
    if len(records) != len(itp['atoms']) or len(top['molecules']) != 1:
        problems.append(('c18:cli-files-disagree', '%d coordinate records, %d ITP atoms, molecules %r' % (len(records), len(itp['atoms']), top['molecules'])))
    bb = [i for i, a in enumerate(itp['atoms']) if a['atomname'] == 'BB']
    sites = [i for i, a in enumerate(itp['atoms']) if a['atomname'] == 'CA']
    if not problems and (len(bb) != len(residues) or len(sites) != len(bb)):
        problems.append(('c18:cli-site-count', '%d backbone particles, %d virtual sites, %d residues' % (len(bb), len(sites), len(residues))))
    if not problems:
        if sites != list(range(len(itp['atoms']) - len(sites), len(itp['atoms']))):
            problems.append(('c18:cli-site-placement', 'the virtual sites are not the last atoms: indices %r of %d' % (sites, len(itp['atoms']))))
        types = [itp['atoms'][i]['atype'] for i in sites]
        if len(set(types)) != len(types):
            problems.append(('c18:cli-site-types', 'virtual-site types are not unique: %r' % (types,)))
        for k, (s, b) in enumerate(zip(sites, bb)):
            sa, ba = itp['atoms'][s], itp['atoms'][b]
            if (int(sa['resid']), sa['resname']) != (int(ba['resid']), ba['resname']) or float(sa['charge'] or 0) != 0.0:
                problems.append(('c18:cli-site-attributes', 'site %d: %r, its backbone particle: %r' % (k, sa, ba)))
                break
            same_place = all(abs(float(records[s][c]) - float(records[b][c])) <= 1.1e-3 for c in 'xyz')
            if not same_place:
                problems.append(('c18:cli-site-position', 'site %d is written at another place than its backbone particle' % k))
                break
    if not problems:
        type_to_res = {itp['atoms'][s]['atype']: k for k, s in enumerate(sites)}
        got = {}
        for tokens in nb_lines:
            if len(tokens) >= 5 and tokens[0] in type_to_res and tokens[1] in type_to_res:
                key = frozenset((type_to_res[tokens[0]], type_to_res[tokens[1]]))
                if key in got:
                    problems.append(('c18:cli-duplicate-potential', 'two Go potentials for residues %r' % (sorted(key),)))
                got[key] = (float(tokens[3]), float(tokens[4]))
        listed = set(contacts)
        pos = [tuple(float(records[b][c]) / 10 for c in 'xyz') for b in bb]
        excl = set()
        for sec, guard, atoms_, params in itp['interactions']:
            if sec == 'exclusions':
                nums = [int(x) - 1 for x in atoms_] + [int(x) - 1 for x in params if str(x).isdigit()]
                for other in nums[1:]:
                    excl.add(frozenset((nums[0], other)))
        undecided = 0
        # residue graph from the bonds and constraints the ITP lists between particles of different residues
        res_of_atom = {}
        current = -1
        for idx, atom in enumerate(itp['atoms']):
            if atom['atomname'] == 'BB':
                current += 1
            if atom['atomname'] != 'CA':
                res_of_atom[idx] = current
        adjacency = {k: set() for k in range(len(residues))}
        for sec, guard, atoms_, params in itp['interactions']:
            if sec in ('bonds', 'constraints') and len(atoms_) == 2:
                a, b = int(atoms_[0]) - 1, int(atoms_[1]) - 1
                if a in res_of_atom and b in res_of_atom and res_of_atom[a] != res_of_atom[b]:
                    adjacency[res_of_atom[a]].add(res_of_atom[b])
                    adjacency[res_of_atom[b]].add(res_of_atom[a])
        graph_dist = {}
        for start in adjacency:
            seen = {start: 0}
            frontier = [start]
            while frontier:
                nxt = []
                for node in frontier:
                    for nb in adjacency[node]:
                        if nb not in seen:
                            seen[nb] = seen[node] + 1
                            nxt.append(nb)
                frontier = nxt
            graph_dist[start] = seen
        for i, j in itertools.combinations(range(len(residues)), 2):
            both = (residues[i], residues[j]) in listed and (residues[j], residues[i]) in listed
            gd = graph_dist[i].get(j)
            d = math.dist(pos[i], pos[j])
            if min(abs(d - values['low']), abs(d - values['up'])) < 3e-4:
                undecided += 1
                continue
            want = both and (gd is None or gd > values['res_dist']) and values['low'] < d < values['up']
            have = frozenset((i, j)) in got
            if want != have:
                why = 'one-directional' if not both else 'too-close-in-graph' if not (gd is None or gd > values['res_dist']) else 'outside-cutoffs'
                sig = 'c18:cli-missing-potential' if want else 'c18:cli-unjustified-potential(%s)' % why
                problems.append((sig, 'martinize2 -go %s: residues %r and %r at %.4f nm, residue-graph distance %r, listed in both directions %s: '
                                 'potential %s, the statement says %s' % (' '.join(opts), residues[i], residues[j], d, gd, both, have, want)))
                break
            if have:
                sigma, eps = got[frozenset((i, j))]
                if not abs(sigma - d / 2 ** (1 / 6)) <= 2e-4 or not abs(eps - values['eps']) <= 1e-6:
                    problems.append(('c18:cli-wrong-parameters', 'potential of residues %r-%r: sigma %r epsilon %r; distance %.4f gives sigma %.5f, requested '
                                     'depth %r' % (residues[i], residues[j], sigma, eps, d, d / 2 ** (1 / 6), values['eps'])))
                    break
                if frozenset((bb[i], bb[j])) not in excl:
                    problems.append(('c18:cli-exclusion-missing', 'backbone particles of residues %r-%r have a Go potential but are not excluded from each other' % (
                        residues[i], residues[j])))
                    break
    acc.case(nontrivial=True, outcome=('cli', name, kind, label, len(problems)))
    for sig, desc in problems[:1]:
        acc.violation(sig, desc, case)


def items(tier):
    for name in ('bta3-12', 'bta-two-chains-6', 'bta15-22'):
        for label in ('default', 'resdist1') if tier == 'quick' else list(OPTIONS):
            yield name, 'internal', label
    for name in ('bta3-12', 'bta-two-chains-6', 'bta3-12~from0'):
        for kind in CONTACT_SETS:
            for label in OPTIONS:
                if tier == 'quick' and kind != 'one-directional-mix' and label not in ('default', 'resdist1', 'zeros'):
                    continue
                yield name, kind, label


def work(task):
    common.bind_repo()
    acc = Acc()
    for item in task:
        cli_case(item, acc)
    return acc


def run_layer(ctx):
    todo = list(items(ctx.tier))
    acc = Acc()
    for part in common.pmap(work, [[item] for item in todo]):
        acc += part
    ctx.layer('martinize2-go-options', acc)


def replay(case):
    common.bind_repo()
    acc = Acc()
    cli_case((case['input'], case['contacts'], case['label']), acc)
    return [(s, d) for s, d, _ in acc.violations]
