"""C07 layer 3 — placeholder, filled below."""
def run_layer(ctx):
    pass
def replay(case):
    return []
