"""
C02 — a written ITP states exactly the molecule held in memory.

Enumerated: molecules of n atoms whose node keys are sparse and unordered, whose atom ids are
absent / identity / EVERY permutation / partially missing, with every subset (size <= k) of an
interaction menu (bonds, angles, dihedrals, impropers, constraints, exclusions, n-body virtual
sites, position restraints; versions, #ifdef/#ifndef guards, groups, comments, empty parameters),
with and without charge/mass.  Oracle: the independent reader of mc/readers.py.
"""
import io
import itertools

from mc import common, readers
from mc.common import Acc

RULE = ("every (key set, atom-id assignment, interaction subset, charge/mass variant) of the stated menus; distinct = "
        "distinct tuples; non-trivial = atom-id order differs from node order, or keys are sparse, and >= 1 interaction")
ASSUMPTIONS = ["mass without charge is not generated: the blank charge column makes the written line ambiguous for any reader",
               "resid and charge_group are written as given (their renumbering is the user's responsibility per the writer's docs)"]

KEYSETS = {4: [[0, 1, 2, 3], [7, 2, 40, 11], [40, 11, 7, 2]],
           5: [[0, 1, 2, 3, 4], [7, 2, 40, 11, 5], [40, 11, 7, 5, 2]]}

# (type, atom positions, parameters, meta)
MENU = [
    ('bonds', (0, 1), ['1', '0.2', '1000'], {}),
    ('bonds', (1, 0), ['1', '0.21', '900'], {'comment': 'reversed'}),
    ('bonds', (2, 3), ['1', '0.3', '500'], {'ifdef': 'FLEX'}),
    ('bonds', (2, 3), ['1', '0.31', '501'], {'ifndef': 'FLEX', 'version': 1}),
    ('angles', (0, 1, 2), ['2', '120', '25'], {'group': 'my group'}),
    ('dihedrals', (0, 1, 2, 3), ['1', '180', '2', '1'], {'version': 1}),
    ('impropers', (3, 0, 1, 2), ['2', '0', '50'], {}),
    ('constraints', (1, 2), ['1', '0.25'], {'ifdef': 'X', 'group': 'g'}),
    ('exclusions', (0, 1, 2, 3), [], {}),
    ('virtual_sitesn', (3, 0, 1, 2), ['1'], {}),
    ('position_restraints', (2,), ['1', '1000', '1000', '1000'], {'ifdef': 'POSRES'}),
    ('bonds', (0, 3), [], {}),
    ('angles', (1, 2, 3), ['2', '100', '20'], {'ifndef': 'Y', 'group': 'other'}),
]


def atomid_variants(n, tier):
    yield 'none', None
    perms = list(itertools.permutations(range(1, n + 1)))
    if n >= 5 and tier == 'quick':
        perms = [p for p in perms if sum(1 for i, v in enumerate(p, 1) if i != v) <= 2]
    for perm in perms:
        yield 'perm', list(perm)
    # partially missing: first atom / last atom without id
    yield 'partial', [None] + list(range(1, n))
    yield 'partial', list(range(2, n + 1))[::-1] + [None]
    # sparse ids (not 1..n)
    yield 'sparse', [10 * (n - i) for i in range(n)]


def build(keys, atomids, chosen, cm):
    import vermouth
    mol = vermouth.molecule.Molecule(nrexcl=1)
    mol.meta['moltype'] = 'TEST'
    for pos, key in enumerate(keys):
        attrs = {'atype': 'T%d' % pos, 'resid': pos // 2 + 1, 'resname': 'R%d' % (pos // 2), 'atomname': 'A%d' % pos,
                 'charge_group': pos + 1}
        if atomids is not None and atomids[pos] is not None:
            attrs['atomid'] = atomids[pos]
        if cm in ('charge', 'both'):
            attrs['charge'] = [0.0, -1.0, 0.5, 1, -0.25][pos]
        if cm == 'both':
            attrs['mass'] = [72, 36.0, 12.011, 1.008, 54][pos]
        mol.add_node(key, **attrs)
    for idx in chosen:
        typ, positions, params, meta = MENU[idx]
        mol.add_interaction(typ, tuple(keys[p] for p in positions), list(params), meta=dict(meta))
    return mol


def expected_order(keys, atomids):
    if atomids is None:
        return list(keys)
    inf = float('inf')
    return [k for _, _, k in sorted(((atomids[pos] if atomids[pos] is not None else inf), pos, key)
                                    for pos, key in enumerate(keys))]


def check(keys, atomids, chosen, cm, acc, sample=False, phase2=None):
    from vermouth.gmx.itp import write_molecule_itp
    case = {'keys': list(keys), 'atomids': atomids, 'interactions': list(chosen), 'charge_mass': cm}
    mol = build(keys, atomids, chosen, cm)
    handle = io.StringIO()
    try:
        write_molecule_itp(mol, handle)
        text = handle.getvalue()
        parsed = readers.read_itp(text)
    except readers.FormatError as err:
        acc.case(outcome='fmt')
        acc.violation('itp:unreadable', 'written ITP cannot be read back: %s' % err, case)
        return
    except Exception as err:   # pylint: disable=broad-except
        acc.case(outcome='exc')
        acc.violation('itp:exception', 'write_molecule_itp raised %r' % (err,), case)
        return
    order = expected_order(keys, atomids)
    nontrivial = bool(chosen) and (order != sorted(keys) or order != list(keys))
    acc.case(nontrivial=nontrivial, outcome=(tuple(order == list(keys) and [0] or [1]), tuple(chosen), cm),
             sample=dict(case, itp=text) if sample else None)
    problems = []
    if parsed['unbalanced']:
        problems.append(('itp:guard-unbalanced', 'unclosed conditional(s) %r' % (parsed['unbalanced'],)))
    # --- atoms
    atoms = parsed['atoms']
    if [a['idx'] for a in atoms] != list(range(1, len(keys) + 1)):
        problems.append(('itp:atom-numbering', 'atom indices %r are not 1..%d' % ([a['idx'] for a in atoms], len(keys))))
    else:
        for line, key in zip(atoms, order):
            node = mol.nodes[key]
            want = {'atype': str(node['atype']), 'resid': str(node['resid']), 'resname': str(node['resname']),
                    'atomname': str(node['atomname']), 'charge_group': str(node['charge_group']),
                    'charge': str(node.get('charge', '')), 'mass': str(node.get('mass', ''))}
            got = {k: line[k] for k in want}
            if got != want or line['guard']:
                problems.append(('itp:atom-fields', 'atom line %d is %r, node %r has %r' % (line['idx'], got, key, want)))
                break
    # --- interactions
    if not problems:
        index_to_key = {i: k for i, k in enumerate(order, 1)}
        got = []
        for section, guard, ats, params in parsed['interactions']:
            try:
                got.append((section, guard, tuple(index_to_key[a] for a in ats), params))
            except KeyError:
                problems.append(('itp:dangling-index', '%s line refers to atom index %r' % (section, ats)))
        want = []
        for typ, lst in mol.interactions.items():
            section = 'dihedrals' if typ == 'impropers' else typ
            for inter in lst:
                guard = ()
                if inter.meta.get('ifdef') is not None:
                    guard = (('ifdef', inter.meta['ifdef']),)
                elif inter.meta.get('ifndef') is not None:
                    guard = (('ifndef', inter.meta['ifndef']),)
                want.append((section, guard, tuple(inter.atoms), tuple(' '.join(str(p) for p in inter.parameters).split())))
        if not problems and sorted(got) != sorted(want):
            missing = [w for w in want if w not in got]
            extra = [g for g in got if g not in want]
            # classify
            if len(got) != len(want):
                sig = 'itp:interaction-count'
            elif sorted((s, a, p) for s, _, a, p in got) == sorted((s, a, p) for s, _, a, p in want):
                sig = 'itp:wrong-guard'
            elif sorted((s, g, p) for s, g, _, p in got) == sorted((s, g, p) for s, g, _, p in want):
                sig = 'itp:wrong-atoms'
            else:
                sig = 'itp:wrong-interaction'
            problems.append((sig, 'read back %r, in memory %r' % (extra, missing)))
    for sig, desc in problems[:1]:
        acc.violation(sig, desc, case)
    if phase2 is None:
        phase2 = len(chosen) >= 1
    if problems or phase2 is False:
        return
    # ---- history: the SAME molecule object is written again after its atom ids were changed in place
    new_ids = {}
    if atomids is None:
        new_ids = {key: len(keys) - pos for pos, key in enumerate(keys)}
    else:
        present = [a for a in atomids if a is not None]
        flipped = sorted(present, reverse=True)
        mapping_ids = dict(zip(sorted(present), flipped))
        new_ids = {key: (mapping_ids[atomids[pos]] if atomids[pos] is not None else None) for pos, key in enumerate(keys)}
    for key, value in new_ids.items():
        if value is None:
            mol.nodes[key].pop('atomid', None)
        else:
            mol.nodes[key]['atomid'] = value
    handle = io.StringIO()
    try:
        write_molecule_itp(mol, handle)
        parsed2 = readers.read_itp(handle.getvalue())
    except Exception as err:   # pylint: disable=broad-except
        acc.violation('itp:rewrite-exception', 'second write of the same molecule raised %r' % (err,), dict(case, phase=2))
        return
    ids2 = [new_ids[k] for k in keys]
    order2 = expected_order(keys, ids2 if any(v is not None for v in ids2) else None)
    got_names = [a['atomname'] for a in parsed2['atoms']]
    want_names = [str(mol.nodes[k]['atomname']) for k in order2]
    acc.transitions += 1
    if got_names != want_names:
        acc.violation('itp:stale-order-on-rewrite', 'after the atom ids were changed in place the same molecule is written with atoms %r, '
                      'atom-id order is %r' % (got_names, want_names), dict(case, phase=2))
        return
    index_to_key = {i: k for i, k in enumerate(order2, 1)}
    got2 = sorted((sec, guard, tuple(index_to_key.get(a) for a in ats), params) for sec, guard, ats, params in parsed2['interactions'])
    if got2 != sorted(want):
        acc.violation('itp:stale-indices-on-rewrite', 'after the atom ids were changed in place the interactions are written on other atoms',
                      dict(case, phase=2))


def work(task):
    common.bind_repo()
    n, keys, tier, max_subset, variants = task
    acc = Acc()
    usable = [i for i, m in enumerate(MENU) if max(m[1]) < n]
    subsets = [()]
    for size in range(1, max_subset + 1):
        subsets.extend(itertools.combinations(usable, size))
    count = 0
    for kind, atomids in variants:
        for chosen in subsets:
            cms = ('none', 'charge', 'both') if len(chosen) <= 1 else ('both',)
            for cm in cms:
                count += 1
                check(keys, atomids, chosen, cm, acc, sample=(count % 40013 == 1))
    return acc


def run(ctx):
    if ctx.quick:
        plan = [(4, 3), (5, 2)]
    else:
        plan = [(4, 4), (5, 3)]
    ctx.bound = {'atoms_and_subset_size': plan}
    tasks = []
    for n, max_subset in plan:
        variants = list(atomid_variants(n, ctx.tier))
        for keys in KEYSETS[n]:
            for chunk in common.chunked(variants, max(1, len(variants) // 8)):
                tasks.append((n, keys, ctx.tier, max_subset, chunk))
    acc = Acc()
    for part in common.pmap(work, tasks):
        acc += part
    ctx.layer('itp-roundtrip', acc)
    # the ITP a molecule's type name points at, after the real naming/deduplication and topology writer (layer shared with C03)
    from props import c03
    c03.run_files_layer(ctx, 2 if ctx.quick else 3, name='itp-of-named-molecules')
    from props import cli_topology
    cli_topology.run_layer(ctx)


def replay(case):
    common.bind_repo()
    if case.get('layer') == 'cli-topology':
        from props import cli_topology
        return cli_topology.replay(case)
    if 'shapes' in case and 'deduplicate' in case:
        from props import c03
        return c03.replay(case)
    acc = Acc()
    check(case['keys'], case['atomids'], tuple(case['interactions']), case['charge_mass'], acc)
    return [(s, d) for s, d, _ in acc.violations]
