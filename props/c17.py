"""
C17 — per-residue annotations land on the intended residues and translate correctly.

Layer "assign"  : every system = sequence of <= M molecules over
                  {selected, unselected} x residue count {1,2,3} x node-key layout
                  {contiguous, interleaved, reversed}; every sequence length 0..total+1
                  (distinct tokens, given as str and as list); selectors select_all,
                  is_protein and a meta-based one.  Oracle: documented reconciliation,
                  then k-th element -> all atoms of the k-th residue (residues ordered by
                  lowest node key) of the SELECTED molecules in system order; unselected
                  molecules keep what they had.
Layer "pipeline": the same systems through AnnotateResidues('aasecstruct') +
                  AnnotateMartiniSecondaryStructures and through AnnotateDSSP(callable):
                  cgsecstruct of residue k == reference translation of the molecule's string.
Layer "dssp2cg" : convert_dssp_to_martini on ALL strings over the alphabet up to the bound,
                  against a run-length reference model.
"""
import itertools

from mc import common
from mc.common import Acc

RULE = ("assign: all molecule sequences (<=M) over kind x residue-count x key-layout, all sequence lengths 0..total+1, "
        "3 selectors, str and list sequences; non-trivial = at least one selected and one unselected molecule, or "
        ">= 2 selected molecules; dssp2cg: all strings over the alphabet up to the length bound; non-trivial = contains "
        "a helical run")
ASSUMPTIONS = ["the k-th residue of a molecule is the k-th in order of lowest node key (graph_utils.partition_graph docs)",
               "molecules with zero residues are not generated"]

LAYOUTS = ('contig', 'inter', 'rev')
TOKENS = 'abcdefghijklmnopq'


def build_molecule(kind, nres, layout, tag, chain='A'):
    """2 atoms per residue. Returns (molecule, residues) with residues = list of node-key
    tuples in ascending order of lowest key (the reference residue order)."""
    import vermouth
    mol = vermouth.molecule.Molecule()
    mol.meta['tag'] = tag
    mol.meta['sel'] = (kind == 'S')
    resname = 'LIG' if kind == 'U' else 'ALA'
    per = 2
    keys = {}
    if layout == 'contig':
        for r in range(nres):
            keys[r] = [r * per + a for a in range(per)]
    elif layout == 'inter':
        for r in range(nres):
            keys[r] = [r + a * nres for a in range(per)]
    else:  # residue with the highest resid has the lowest keys
        for r in range(nres):
            keys[r] = [(nres - 1 - r) * per + a for a in range(per)]
    for r in range(nres):
        for a, key in enumerate(keys[r]):
            mol.add_node(key, resid=r + 1, resname=resname, chain=chain,
                         atomname='BB' if a == 0 else 'SC1', old='keep-%s' % tag,
                         position=None)
            if kind == 'N' or (kind == 'P' and r == nres - 1):
                # particles without any residue name (hand-built solvent / ions; one unnamed residue in a protein):
                # is_protein is documented as "all residues are protein residues", so these molecules are not proteins
                del mol.nodes[key]['resname']
    # bonds inside and between consecutive residues (not needed, but realistic)
    for r in range(nres):
        mol.add_edge(keys[r][0], keys[r][1])
        if r:
            mol.add_edge(keys[r - 1][0], keys[r][0])
    residues = sorted((tuple(sorted(v)) for v in keys.values()), key=min)
    return mol, residues


def selectors():
    from vermouth import selectors as sel
    return {'all': sel.select_all, 'protein': sel.is_protein,
            'meta': (lambda mol: bool(mol.meta.get('sel')))}


def ref_reconcile(seq, lengths):
    """Documented reconciliation. Returns the full per-residue list or 'error'."""
    seq = list(seq)
    if seq and not lengths:
        return 'error'
    if lengths and len(seq) == lengths[0] and all(l == lengths[0] for l in lengths):
        return seq * len(lengths)
    if len(seq) == 1:
        return seq * sum(lengths)
    if len(seq) != sum(lengths):
        return 'error'
    return seq


def system_specs(max_mols):
    options = [(k, n, lay) for k in 'SU' for n in (1, 2, 3) for lay in LAYOUTS]
    for m in range(1, max_mols + 1):
        for combo in itertools.product(options, repeat=m):
            # layouts only matter for >1 residue; drop duplicates for nres == 1
            if any(n == 1 and lay != 'contig' for _, n, lay in combo):
                continue
            yield combo


def special_specs(max_mols):
    options = [(k, n, 'contig') for k in 'SUNP' for n in (1, 2)]
    for m in range(1, max_mols + 1):
        for combo in itertools.product(options, repeat=m):
            if any(k in 'NP' for k, _, _ in combo):
                yield combo


def build_system(spec):
    import vermouth
    system = vermouth.System()
    info = []
    for idx, (kind, nres, layout) in enumerate(spec):
        mol, residues = build_molecule(kind, nres, layout, 'm%d' % idx)
        system.molecules.append(mol)
        info.append((kind, residues))
    return system, info


def snapshot(system, attribute):
    return [{k: mol.nodes[k].get(attribute, None) for k in mol.nodes} for mol in system.molecules]


def check_assign(spec, selname, seqlen, as_str, acc):
    from vermouth.dssp.dssp import AnnotateResidues
    sel = selectors()[selname]
    system, info = build_system(spec)
    # pre-existing values on every molecule, so "untouched" is observable
    for mol in system.molecules:
        for k in mol.nodes:
            mol.nodes[k]['ann'] = 'old'
    selected = [i for i, (kind, _) in enumerate(info) if selname == 'all' or kind == 'S']
    lengths = [len(info[i][1]) for i in selected]
    seq = TOKENS[:seqlen] if as_str else list(TOKENS[:seqlen])
    expected_full = ref_reconcile(seq, lengths)
    case = {'layer': 'assign', 'spec': [list(s) for s in spec], 'selector': selname, 'seqlen': seqlen, 'as_str': as_str}
    try:
        AnnotateResidues('ann', seq, molecule_selector=sel).run_system(system)
        got = snapshot(system, 'ann')
    except ValueError:
        got = 'error'
    except Exception as err:
        got = 'exception %s' % type(err).__name__
    if expected_full == 'error':
        expected = 'error'
    else:
        expected = []
        offset = 0
        for i, (kind, residues) in enumerate(info):
            if i in selected:
                vals = {}
                for r, keys in enumerate(residues):
                    for k in keys:
                        vals[k] = expected_full[offset + r]
                offset += len(residues)
            else:
                vals = {k: 'old' for keys in residues for k in keys}
            expected.append(vals)
    kinds = [k for k, _, _ in spec]
    nontrivial = (selname != 'all' and 'S' in kinds and 'U' in kinds) or len(selected) >= 2
    acc.case(nontrivial=nontrivial, outcome=('a', got if isinstance(got, str) else [sorted(map(str, g.values())) for g in got]),
             sample=case if acc.states % 20011 == 0 else None)
    if got != expected:
        if got == 'error':
            sig = 'assign-unexpected-error'
        elif expected == 'error':
            sig = 'assign-mismatch-not-rejected'
        elif isinstance(got, str):
            sig = 'assign-exception'
        else:
            touched_unsel = any(got[i] != expected[i] for i in range(len(info)) if i not in selected)
            sig = 'assign-unselected-touched' if touched_unsel else 'assign-wrong-residue'
        acc.violation(sig, 'AnnotateResidues gave %r, expected %r' % (got, expected), case)


# ------------------------------------------------------------------ translation

HELIX = set('HGI123')
TABLE = {'B': 'E', 'E': 'E', 'T': 'T', 'S': 'S', 'C': 'C'}


def ref_convert(seq):
    out = []
    i = 0
    n = len(seq)
    while i < n:
        if seq[i] in HELIX:
            j = i
            while j < n and seq[j] in HELIX:
                j += 1
            run = j - i
            if run <= 4:
                out.append('3' * run)
            elif run == 5:
                out.append('13332')
            elif run == 6:
                out.append('113322')
            elif run == 7:
                out.append('1113222')
            else:
                out.append('1111' + 'H' * (run - 8) + '2222')
            i = j
        else:
            out.append(TABLE[seq[i]])
            i += 1
    return ''.join(out)


def check_convert(text, acc):
    from vermouth.dssp.dssp import convert_dssp_to_martini
    expected = ref_convert(text)
    try:
        got = convert_dssp_to_martini(text)
    except Exception as err:
        got = 'exception %s' % type(err).__name__
    acc.case(nontrivial=any(c in HELIX for c in text), outcome=('c', got[:6]),
             sample={'layer': 'dssp2cg', 'dssp': text, 'martini': got} if acc.states % 50021 == 0 else None)
    if got != expected:
        sig = 'dssp2cg-length' if len(got) != len(text) else (
            'dssp2cg-helix' if any(c in HELIX for c in text) else 'dssp2cg-table')
        acc.violation(sig, 'convert_dssp_to_martini(%r) = %r, documented rules give %r' % (text, got, expected),
                      {'layer': 'dssp2cg', 'dssp': text})


def check_pipeline(spec, acc):
    """aasecstruct assigned via AnnotateResidues(is_protein) / AnnotateDSSP(callable), then translated."""
    from vermouth.dssp.dssp import AnnotateResidues, AnnotateMartiniSecondaryStructures, AnnotateDSSP
    from vermouth import selectors as sel
    import numpy as np
    dssp_letters = 'HHHHHECHHGGTSB'
    for route in ('ss', 'dssp'):
        system, info = build_system(spec)
        selected = [i for i, (kind, _) in enumerate(info) if kind == 'S']
        total = sum(len(info[i][1]) for i in selected)
        case = {'layer': 'pipeline', 'spec': [list(s) for s in spec], 'route': route}
        per_mol = {}
        offset = 0
        for i in selected:
            n = len(info[i][1])
            per_mol[i] = dssp_letters[offset:offset + n]
            offset += n
        try:
            if route == 'ss':
                if not selected:
                    continue
                AnnotateResidues('aasecstruct', dssp_letters[:total], molecule_selector=sel.is_protein).run_system(system)
            else:
                for mol in system.molecules:
                    for k in mol.nodes:
                        mol.nodes[k]['position'] = np.array([float(k), 0., 0.])
                state = {'offset': 0}

                def fake_dssp(sub):
                    nres = sum(len(list(m.iter_residues())) for m in sub.molecules)
                    out = list(dssp_letters[state['offset']:state['offset'] + nres])
                    state['offset'] += nres
                    return out
                AnnotateDSSP(executable=fake_dssp).run_system(system)
            AnnotateMartiniSecondaryStructures().run_system(system)
            got = [(snapshot(system, 'aasecstruct')[i], snapshot(system, 'cgsecstruct')[i]) for i in range(len(info))]
        except Exception as err:
            acc.case(outcome=('p', 'exc'))
            acc.violation('pipeline-exception', '%s route raised %r' % (route, err), case)
            continue
        expected = []
        for i, (kind, residues) in enumerate(info):
            if i in selected:
                cg = ref_convert(per_mol[i])
                aa = {k: per_mol[i][r] for r, keys in enumerate(residues) for k in keys}
                cgd = {k: cg[r] for r, keys in enumerate(residues) for k in keys}
            else:
                aa = {k: None for keys in residues for k in keys}
                cgd = dict(aa)
            expected.append((aa, cgd))
        acc.case(nontrivial=len(selected) >= 1 and len(selected) < len(info), outcome=('p', [sorted(map(str, g[1].values())) for g in got]),
                 sample=case if acc.states % 3001 == 0 else None)
        if got != expected:
            acc.violation('pipeline-wrong-residue', '%s route: got %r, expected %r' % (route, got, expected), case)


# ------------------------------------------------------------------ histories with in-place edits

H_OPS = [('annotate', 'exact'), ('annotate', 'one'), ('annotate', 'wrong'), ('iter',),
         ('edit', 'rechain'), ('edit', 'merge'), ('edit', 'rename'), ('edit', 'insertion')]


def history_molecule():
    """Two copies of a two-residue peptide in one molecule, both numbered 1-2 in chain A: the atoms of the copies that agree
    in (chain, resid, resname, insertion code) are one residue, as the residue graph defines it."""
    import vermouth
    mol = vermouth.molecule.Molecule()
    mol.meta['sel'] = True
    key = 0
    for copy_idx in range(2):
        for r, resname in enumerate(('ALA', 'GLY')):
            for a in range(2):
                mol.add_node(key, resid=r + 1, resname=resname, chain='A', atomname='BB' if a == 0 else 'SC1', ann='old', group=(copy_idx, r))
                key += 1
    for k in range(key - 1):
        mol.add_edge(k, k + 1)
    return mol


def rebuilt(mol):
    """A brand-new molecule object with the same keys, attributes, edges and meta (never looked at before)."""
    import vermouth
    new = vermouth.molecule.Molecule()
    new.meta.update(mol.meta)
    for k in mol.nodes:
        new.add_node(k, **dict(mol.nodes[k]))
    new.add_edges_from(mol.edges)
    return new


def apply_edit(mol, which):
    for k, node in mol.nodes(data=True):
        copy_idx, r = node['group']
        if which == 'rechain' and copy_idx == 1:
            node['chain'] = 'B'
        elif which == 'merge' and r == 1:
            node['resid'] = 1
            node['resname'] = 'ALA'
        elif which == 'rename' and (copy_idx, r) == (1, 1):
            node['resname'] = 'SER'
        elif which == 'insertion' and copy_idx == 1:
            node['insertion_code'] = 'A'


def annotate(mol, mode):
    """Returns the 'ann' values per node or 'error'; the sequence length follows the residue count of a REBUILT copy."""
    import vermouth
    from vermouth.dssp.dssp import AnnotateResidues
    nres = len(list(rebuilt(mol).iter_residues()))
    seq = {'exact': TOKENS[:nres], 'one': 'z', 'wrong': TOKENS[:nres + 1] if nres > 0 else 'ab'}[mode]
    system = vermouth.System()
    system.molecules.append(mol)
    try:
        AnnotateResidues('ann', seq).run_system(system)
    except ValueError:
        return 'error'
    return {k: mol.nodes[k].get('ann') for k in mol.nodes}


def check_history(ops, acc):
    """The molecule that lived through the history and a brand-new molecule with the same content must take the last
    annotation identically (same assignment or same refusal)."""
    case = {'layer': 'history', 'ops': [list(o) for o in ops]}
    mol = history_molecule()
    try:
        for op in ops[:-1]:
            if op[0] == 'annotate':
                annotate(mol, op[1])
            elif op[0] == 'iter':
                list(mol.iter_residues())
            else:
                apply_edit(mol, op[1])
        fresh = rebuilt(mol)
        got = annotate(mol, ops[-1][1])
        want = annotate(fresh, ops[-1][1])
    except Exception as err:   # pylint: disable=broad-except
        acc.case(outcome='exc')
        acc.violation('history-exception', 'history %r raised %r' % (list(ops), err), case)
        return
    edits = [o for o in ops if o[0] == 'edit']
    acc.case(nontrivial=bool(edits), outcome=('h', want if isinstance(want, str) else tuple(sorted(want.values()))))
    if got != want:
        sig = 'history-stale-residues'
        acc.violation(sig, 'after the history %r the annotation gave %r; the same annotation on a newly built molecule with the same '
                      'content gives %r' % ([list(o) for o in ops], got, want), case)


def history_items(depth):
    for n in range(1, depth + 1):
        for ops in itertools.product(H_OPS, repeat=n):
            if ops[-1][0] != 'annotate':
                continue
            yield ops


def work(task):
    common.bind_repo()
    kind, payload = task
    acc = Acc()
    if kind == 'history':
        for ops in payload:
            check_history(ops, acc)
        return acc
    if kind == 'assign':
        for spec in payload:
            total = sum(n for _, n, _ in spec)
            for selname in ('all', 'protein', 'meta'):
                for seqlen in range(0, total + 2):
                    for as_str in (True, False):
                        check_assign(spec, selname, seqlen, as_str, acc)
    elif kind == 'pipeline':
        for spec in payload:
            check_pipeline(spec, acc)
    else:
        letters, length, prefixes = payload
        for prefix in prefixes:
            for tail in itertools.product(letters, repeat=length - len(prefix)):
                check_convert(prefix + ''.join(tail), acc)
    return acc


def convert_tasks(letters, max_len):
    tasks = []
    for length in range(0, max_len + 1):
        if length <= 3:
            tasks.append(('convert', (letters, length, [''])))
        else:
            prefixes = [''.join(p) for p in itertools.product(letters, repeat=2)]
            for chunk in common.chunked(prefixes, max(1, len(prefixes) // 16)):
                tasks.append(('convert', (letters, length, chunk)))
    return tasks


def run(ctx):
    max_mols = 3 if ctx.quick else 4
    ctx.bound = {'molecules': max_mols, 'residues_per_molecule': 3,
                 'dssp_alphabet': 'HGEC<=10' if ctx.quick else 'HGIBETSC<=7, HC<=18, HGEC<=11'}
    specs = list(system_specs(max_mols))
    if not ctx.quick:
        # M=4 with all layouts is 10^5 systems x ~60 runs; keep layouts for <=3 molecules,
        # contiguous + reversed only for 4
        specs = [s for s in specs if len(s) <= 3 or all(lay != 'inter' for _, _, lay in s)]
        ctx.assumptions.append('4-molecule systems: layouts contiguous and reversed only (stated reduction)')
    acc = Acc()
    tasks = [('assign', chunk) for chunk in common.chunked(specs, max(1, len(specs) // 128))]
    for part in common.pmap(work, tasks):
        acc += part
    ctx.layer('assign', acc)
    acc = Acc()
    sspecs = list(special_specs(3 if ctx.quick else 4))
    for part in common.pmap(work, [('assign', chunk) for chunk in common.chunked(sspecs, max(1, len(sspecs) // 64))]):
        acc += part
    ctx.layer('assign-unnamed-particles', acc)
    acc = Acc()
    hist = list(history_items(3 if ctx.quick else 4))
    for part in common.pmap(work, [('history', chunk) for chunk in common.chunked(hist, max(1, len(hist) // 32))]):
        acc += part
    ctx.layer('histories-with-in-place-edits', acc)
    acc = Acc()
    pspecs = [s for s in specs if len(s) <= 3]
    for part in common.pmap(work, [('pipeline', chunk) for chunk in common.chunked(pspecs, max(1, len(pspecs) // 64))]):
        acc += part
    ctx.layer('pipeline', acc)
    acc = Acc()
    if ctx.quick:
        tasks = convert_tasks('HGEC', 10)
    else:
        tasks = convert_tasks('HGIBETSC', 7) + convert_tasks('HC', 18) + convert_tasks('HGEC', 11)
    for part in common.pmap(work, tasks):
        acc += part
    ctx.layer('dssp2cg', acc)
    from props import c17_cli
    c17_cli.run_layer(ctx)
    from props import c17_dssp
    c17_dssp.run_layer(ctx)


def replay(case):
    common.bind_repo()
    acc = Acc()
    if case['layer'] == 'cli':
        from props import c17_cli
        return c17_cli.replay(case)
    if case['layer'] == 'dssp':
        from props import c17_dssp
        return c17_dssp.replay(case)
    if case['layer'] == 'history':
        check_history([tuple(o) for o in case['ops']], acc)
    elif case['layer'] == 'assign':
        check_assign([tuple(s) for s in case['spec']], case['selector'], case['seqlen'], case['as_str'], acc)
    elif case['layer'] == 'pipeline':
        check_pipeline([tuple(s) for s in case['spec']], acc)
    else:
        check_convert(case['dssp'], acc)
    return [(s, d) for s, d, _ in acc.violations]
