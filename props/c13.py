"""
C13 — force-field, topology and mapping files load to exactly what they declare.

A generator emits a file AND its declared content side by side from section "chunks"; every
sequence of top-level chunks up to length S (chunks chosen with repetition) is loaded with the real
parser and compared with the declaration: each declared block, link and modification exactly once
and in file order, with exactly the declared atoms, attributes, bonds, interactions (atoms,
parameters, per-line and #meta metadata, versions, removal markers), patterns, features, non-edges,
variables, macros substituted; prefix form == attribute form of the same link.
Faults (unknown section, reference to an undefined block atom, duplicate block atom, unbalanced
braces, prefix/order contradiction, wrong atom count) are injected at EVERY applicable line of
every well-formed file of length <= S-1 and must be rejected.
Layers: ff (read_ff), itp (read_itp), map (.map backward files), mapping (.mapping files).
"""
import itertools
import os

from mc import common
from mc.common import Acc

RULE = ("every sequence of top-level chunks up to the length bound; every listed fault at every applicable line of the "
        "shorter files; distinct = distinct files; non-trivial = at least two context-opening chunks (block/link/"
        "modification) or a fault injection")
ASSUMPTIONS = ["blocks and modifications get a unique name per position (the statement does not say what a repeated name means)",
               "force-field-wide [ citations ] are not compared (whether a late section applies to earlier blocks is not documented)",
               "a [ variables ] section after a block/link/modification is an error, as the parser's own message documents"]


# ----------------------------------------------------------------------------- canonical forms

def cv(value):
    """Canonical JSON-able form of an attribute / parameter value."""
    from vermouth.molecule import Choice, NotDefinedOrNot, LinkParameterEffector
    if isinstance(value, Choice):
        return {'__choice__': [cv(v) for v in value.value]}
    if isinstance(value, NotDefinedOrNot):
        return {'__not__': cv(value.value)}
    if isinstance(value, LinkParameterEffector):
        return {'__effector__': type(value).__name__, 'keys': list(value.keys), 'format': value.format}
    if isinstance(value, dict):
        return {str(k): cv(v) for k, v in value.items()}
    if isinstance(value, (list, tuple)):
        return [cv(v) for v in value]
    if isinstance(value, (set, frozenset)):
        return sorted(cv(v) for v in value)
    if isinstance(value, float) and value == int(value):
        return float(value)
    return value


def canon_interactions(table):
    out = {}
    for name, lst in table.items():
        if not lst:
            continue
        out[name] = [[list(i.atoms), cv(list(i.parameters)), cv(dict(i.meta))] for i in lst]
    return out


def canon_block(block):
    return {
        'name': block.name, 'nrexcl': block.nrexcl,
        'nodes': [[key, cv(dict(attrs))] for key, attrs in block.nodes(data=True)],
        'edges': sorted(sorted(map(str, e)) for e in block.edges),
        'interactions': canon_interactions(block.interactions),
        'meta': cv(dict(block.meta)),
    }


def canon_link(link):
    out = canon_block(link)
    if not isinstance(link, __import__('vermouth').molecule.Modification):
        out['name'] = None      # links are anonymous
    out['nrexcl'] = None
    out.update({
        'non_edges': [[k, cv(a)] for k, a in link.non_edges],
        'removed': {name: [[list(i.atoms), cv(list(i.atom_attrs)), cv(list(i.parameters)), cv(dict(i.meta))] for i in lst]
                    for name, lst in link.removed_interactions.items() if lst},
        'molecule_meta': cv(dict(link.molecule_meta)),
        'patterns': cv(link.patterns),
        'features': sorted(link.features),
    })
    return out


# ----------------------------------------------------------------------------- ff chunks
# Each chunk function takes (i, state) and returns (lines, declared) where declared is
# ('block'|'link'|'modification'|'variables'|None, canonical content).

CHOICE = {'__choice__': ['BLK', 'OTH']}
NOTX = {'__not__': 'x'}


def ch_macros(i, st):
    st['macros'] = True
    # a macro name ends at one of ' ${}"' or at the end of the line: 'blen-x' and 'b.len' are names of their own, not 'blen' / 'b'
    return ['[ macros ]', 'mtype P2', 'blen "0.55"', 'blen-x "0.25"', 'b "9"', 'b.len 0.6'], (None, None)


def ch_variables(i, st):
    lines = ['[ variables ]', 'bb_atomname "BB"', 'count%d %d' % (i, i), 'regular%d 1.5' % i, 'plain%d text' % i]
    return lines, ('variables', {'bb_atomname': 'BB', 'count%d' % i: i, 'regular%d' % i: 1.5, 'plain%d' % i: 'text'})


def ch_citations(i, st):
    return ['[ citations ]', 'cite%d' % i], (None, None)


def ch_block_rich(i, st):
    name = 'BA%d' % i
    mtype = '$mtype' if st.get('macros') else 'P2'
    lines = [
        '[ moleculetype ]', '; a comment line', '%s 2' % name,
        '[ atoms ]',
        '1 %s 1 %s BB 1 0.5 72' % (mtype, name),
        '2 C1 1 %s SC1 2 {"extra": "x"}' % name,
        '3 C2 1 %s SC2 3 -1 ; trailing comment' % name,
        '[ bonds ]',
        'BB SC1 1 0.25 1000',
        '2 3 1 0.3 {"comment": "idx"}',
        '#meta {"group": "grp", "version": 7}',
        'BB SC2 1 0.4 {"version": 1}',
        'BB SC2 -- 1 0.5',
        '[ angles ]',
        'BB SC1 SC2 2 120 50 {"edge": false}',
        '[ dihedrals ]',
        'BB SC1 SC2 BB 2 0 10',
        'BB SC1 SC2 BB 1 180 2 1 {"version": 2}',
        '[ constraints ]',
        '#meta {"ifdef": "FLEX"}',
        'SC1 SC2 1 0.33',
        '[ edges ]',
        'BB SC2',
        '[ meta ]',
        'flag',
        'key value',
        'multi a 0.37',
        '[ citation ]',
        'own%d' % i,
    ]
    nodes = [
        ['BB', {'atomname': 'BB', 'atype': 'P2', 'resname': name, 'resid': 1, 'charge_group': 1, 'charge': 0.5, 'mass': 72.0}],
        ['SC1', {'atomname': 'SC1', 'atype': 'C1', 'resname': name, 'resid': 1, 'charge_group': 2, 'extra': 'x'}],
        ['SC2', {'atomname': 'SC2', 'atype': 'C2', 'resname': name, 'resid': 1, 'charge_group': 3, 'charge': -1.0}],
    ]
    declared = {
        'name': name, 'nrexcl': 2, 'nodes': nodes,
        # bonds and constraints make edges; the angle is marked edge:false; [ edges ] adds BB-SC2
        'edges': sorted([['BB', 'SC1'], ['SC1', 'SC2'], ['BB', 'SC2']]),
        'interactions': {
            'bonds': [[['BB', 'SC1'], ['1', '0.25', '1000'], {}],
                      [['SC1', 'SC2'], ['1', '0.3'], {'comment': 'idx'}],
                      [['BB', 'SC2'], ['1', '0.4'], {'group': 'grp', 'version': 1}],
                      [['BB', 'SC2'], ['1', '0.5'], {'group': 'grp', 'version': 7}]],
            'angles': [[['BB', 'SC1', 'SC2'], ['2', '120', '50'], {'edge': False}]],
            'dihedrals': [[['BB', 'SC1', 'SC2', 'BB'], ['1', '180', '2', '1'], {'version': 2}]],
            'impropers': [[['BB', 'SC1', 'SC2', 'BB'], ['2', '0', '10'], {}]],
            'constraints': [[['SC1', 'SC2'], ['1', '0.33'], {'ifdef': 'FLEX'}]],
        },
        'meta': {'flag': None, 'key': 'value', 'multi': ['a', '0.37']},
    }
    return lines, ('block', declared)


def ch_block_min(i, st):
    name = 'BB%d' % i
    lines = ['[ moleculetype ]', '%s 1' % name, '[ atoms ]', '1 Q5 1 %s ION 1 1' % name]
    declared = {'name': name, 'nrexcl': 1,
                'nodes': [['ION', {'atomname': 'ION', 'atype': 'Q5', 'resname': name, 'resid': 1, 'charge_group': 1, 'charge': 1.0}]],
                'edges': [], 'interactions': {}, 'meta': {}}
    return lines, ('block', declared)


def ch_block_split(i, st):
    """A block whose [ atoms ] come in two sections with an interaction section in between; the later interactions refer to the
    later atoms by number."""
    name = 'BS%d' % i
    lines = ['[ moleculetype ]', '%s 1' % name, '[ atoms ]', '1 P1 1 %s BB 1' % name, '2 C1 1 %s SC1 2' % name,
             '[ bonds ]', '1 2 1 0.2', '[ atoms ]', '3 C2 1 %s SC2 3' % name, '4 C3 1 %s SC3 4' % name,
             '[ bonds ]', '3 4 1 0.3', '2 3 1 0.4', '[ angles ]', '1 2 4 2 100 10']
    nodes = [[nm, {'atomname': nm, 'atype': at, 'resname': name, 'resid': 1, 'charge_group': k + 1}]
             for k, (nm, at) in enumerate((('BB', 'P1'), ('SC1', 'C1'), ('SC2', 'C2'), ('SC3', 'C3')))]
    declared = {'name': name, 'nrexcl': 1, 'nodes': nodes,
                'edges': sorted([['BB', 'SC1'], ['SC2', 'SC3'], ['SC1', 'SC2'], ['SC1', 'SC3']]),
                'interactions': {'bonds': [[['BB', 'SC1'], ['1', '0.2'], {}], [['SC2', 'SC3'], ['1', '0.3'], {}], [['SC1', 'SC2'], ['1', '0.4'], {}]],
                                 'angles': [[['BB', 'SC1', 'SC3'], ['2', '100', '10'], {}]]},
                'meta': {}}
    return lines, ('block', declared)


def ch_link_rich(i, st):
    blen = '$blen-x' if st.get('macros') else '"0.25"'
    far = '$b.len' if st.get('macros') else '0.6'
    lines = [
        '[ link ]',
        'resname "BLK|OTH"',
        'cg not("x")',
        '[ atoms ]',
        'BB {"replace": {"charge": -1}}',
        '+BB {"atype": "Q"}',
        '[ bonds ]',
        'BB +BB 1 0.35 dist(BB,+BB) {"group": "bb"}',
        'BB SC1 {"order": 1} 1 %s' % blen,
        '#meta {"ifndef": "NOLINK"}',
        'BB >SC9 1 %s' % far,
        '[ !angles ]',
        'BB +BB ++BB 2',
        '[ non-edges ]',
        'BB +SC1',
        '[ patterns ]',
        'BB +BB {"resname": "A"}',
        'BB ++BB',
        '[ features ]',
        'scfix f%d' % i,
        '[ molmeta ]',
        'ss "H"',
        '[ edges ]',
        'BB ++BB',
    ]
    allnodes = {'resname': CHOICE, 'cg': NOTX}

    def node(extra):
        out = dict(allnodes)
        out.update(extra)
        return out
    declared = {
        'name': None, 'nrexcl': None,
        'nodes': [
            ['BB', node({'replace': {'charge': -1}, 'order': 0, 'atomname': 'BB'})],
            ['+BB', node({'atype': 'Q', 'order': 1, 'atomname': 'BB'})],
            ['+SC1', node({'order': 1, 'atomname': 'SC1'})],
            ['>SC9', node({'order': '>', 'atomname': 'SC9'})],
            ['++BB', node({'order': 2, 'atomname': 'BB'})],
        ],
        'edges': sorted([sorted(['BB', '+BB']), sorted(['BB', '+SC1']), sorted(['BB', '>SC9']), sorted(['BB', '++BB'])]),
        'interactions': {
            'bonds': [[['BB', '+BB'], ['1', '0.35', {'__effector__': 'ParamDistance', 'keys': ['BB', '+BB'], 'format': None}], {'group': 'bb'}],
                      [['BB', '+SC1'], ['1', '"0.25"'], {}],
                      [['BB', '>SC9'], ['1', '0.6'], {'ifndef': 'NOLINK'}]],
        },
        'meta': {},
        'non_edges': [['BB', node({'order': 1, 'atomname': 'SC1'})]],
        'removed': {'angles': [[['BB', '+BB', '++BB'], [{}, {}, {}], ['2'], {}]]},
        'molecule_meta': {'ss': 'H'},
        'patterns': [[['BB', {}], ['+BB', {'resname': 'A'}]], [['BB', {}], ['++BB', {}]]],
        'features': sorted(['scfix', 'f%d' % i]),
    }
    return lines, ('link', declared)


def _link_min_declared(i):
    return {
        'name': None, 'nrexcl': None,
        'nodes': [['BB', {'order': 0, 'atomname': 'BB'}], ['+BB', {'order': 1, 'atomname': 'BB'}],
                  ['<SC1', {'order': '<', 'atomname': 'SC1'}]],
        'edges': sorted([sorted(['BB', '+BB']), sorted(['BB', '<SC1']), sorted(['+BB', '<SC1'])]),
        'interactions': {'bonds': [[['BB', '+BB'], ['1', '0.3'], {}]], 'angles': [[['<SC1', 'BB', '+BB'], ['2', '100'], {}]]},
        'meta': {}, 'non_edges': [], 'removed': {}, 'molecule_meta': {}, 'patterns': [],
        'features': ['f%d' % i],
    }


def ch_link_prefix(i, st):
    lines = ['[ link ]', '[ bonds ]', 'BB +BB 1 0.3', '[ angles ]', '<SC1 BB +BB 2 100', '[ edges ]', '+BB <SC1', '[ features ]', 'f%d' % i]
    return lines, ('link', _link_min_declared(i))


def ch_link_attr(i, st):
    """The same link with explicit order attributes instead of prefixes."""
    lines = ['[ link ]', '[ bonds ]', 'BB BB {"order": 1} 1 0.3', '[ angles ]',
             'SC1 {"order": "<"} BB {"order": 0} BB {"order": 1} -- 2 100', '[ edges ]', 'BB {"order": 1} SC1 {"order": "<"}',
             '[ features ]', 'f%d' % i]
    return lines, ('link', _link_min_declared(i))


def ch_modification(i, st):
    name = 'M%d' % i
    lines = [
        '[ modification ]', name,
        '[ atoms ]',
        'CA {"PTM_atom": false}',
        'X {"PTM_atom": true, "element": "O", "replace": {"atomname": "OX"}}',
        '[ edges ]',
        'CA X',
        '[ bonds ]',
        'CA X 1 0.1 {"comment": "c"}',
    ]
    declared = {
        'name': name, 'nrexcl': None,
        'nodes': [['CA', {'PTM_atom': False, 'order': 0, 'atomname': 'CA'}],
                  ['X', {'PTM_atom': True, 'element': 'O', 'replace': {'atomname': 'OX'}, 'order': 0, 'atomname': 'X'}]],
        'edges': [['CA', 'X']],
        'interactions': {'bonds': [[['CA', 'X'], ['1', '0.1'], {'comment': 'c'}]]},
        'meta': {}, 'non_edges': [], 'removed': {}, 'molecule_meta': {}, 'patterns': [], 'features': [],
    }
    return lines, ('modification', declared)


FF_CHUNKS = {
    'macros': ch_macros, 'variables': ch_variables, 'citations': ch_citations,
    'block': ch_block_rich, 'block-min': ch_block_min,
    'link': ch_link_rich, 'link-prefix': ch_link_prefix, 'link-attr': ch_link_attr, 'block-split': ch_block_split,
    'modification': ch_modification,
}
CONTEXT = {'block', 'block-min', 'block-split', 'link', 'link-prefix', 'link-attr', 'modification'}


def ff_file(seq):
    """Returns (lines, expected) with expected = dict(variables, blocks, links, modifications) or 'error'."""
    st = {}
    lines = []
    expected = {'variables': {}, 'blocks': [], 'links': [], 'modifications': []}
    error = False
    seen_context = False
    line_owner = []
    for i, kind in enumerate(seq):
        chunk_lines, (what, declared) = FF_CHUNKS[kind](i, st)
        if kind == 'variables' and seen_context:
            error = True
        if kind in CONTEXT:
            seen_context = True
        lines.extend(chunk_lines)
        line_owner.extend([kind] * len(chunk_lines))
        if what == 'variables':
            expected['variables'].update(declared)
        elif what == 'block':
            expected['blocks'].append(declared)
        elif what == 'link':
            expected['links'].append(declared)
        elif what == 'modification':
            expected['modifications'].append(declared)
    return lines, ('error' if error else expected), line_owner


def load_ff(lines):
    from vermouth.forcefield import ForceField
    from vermouth.ffinput import read_ff
    ff = ForceField(name='verif')
    read_ff(lines, ff)
    return {
        'variables': cv(dict(ff.variables)),
        'blocks': [canon_block(b) for b in ff.blocks.values()],
        'links': [canon_link(l) for l in ff.links],
        'modifications': [canon_link(m) for m in ff.modifications.values()],
    }, ff


def first_difference(got, want, path=''):
    if type(got) != type(want) and not (isinstance(got, (int, float)) and isinstance(want, (int, float))):
        return '%s: %r vs declared %r' % (path, got, want)
    if isinstance(got, dict):
        for key in sorted(set(got) | set(want), key=str):
            if key not in got:
                return '%s.%s missing (declared %r)' % (path, key, want[key])
            if key not in want:
                return '%s.%s undeclared (loaded %r)' % (path, key, got[key])
            diff = first_difference(got[key], want[key], '%s.%s' % (path, key))
            if diff:
                return diff
        return None
    if isinstance(got, list):
        if len(got) != len(want):
            return '%s: %d items loaded, %d declared (%r vs %r)' % (path, len(got), len(want), got, want)
        for idx, (a, b) in enumerate(zip(got, want)):
            diff = first_difference(a, b, '%s[%d]' % (path, idx))
            if diff:
                return diff
        return None
    if got != want:
        return '%s: %r vs declared %r' % (path, got, want)
    return None


def check_ff(seq, acc, sample=False):
    lines, expected, _ = ff_file(seq)
    case = {'layer': 'ff', 'chunks': list(seq)}
    try:
        got, ff = load_ff(lines)
    except Exception as err:   # pylint: disable=broad-except
        got = 'error'
        errtext = repr(err)
    ncontext = sum(1 for k in seq if k in CONTEXT)
    acc.case(nontrivial=ncontext >= 2, outcome=('ff', got if got == 'error' else (len(got['blocks']), len(got['links']), len(got['modifications']))),
             sample=dict(case, file=lines) if sample else None)
    if expected == 'error':
        if got != 'error':
            acc.violation('ff:variables-after-context-accepted', 'a [ variables ] section after a block/link/modification was loaded', case)
        return
    if got == 'error':
        acc.violation('ff:wellformed-rejected', 'well-formed file rejected: %s' % errtext, case)
        return
    if len(got['links']) != len(expected['links']):
        acc.violation('ff:link-count', '%d links loaded, %d declared (chunks %r)' % (len(got['links']), len(expected['links']), list(seq)), case)
        return
    for key in ('blocks', 'modifications'):
        if [b['name'] for b in got[key]] != [b['name'] for b in expected[key]]:
            acc.violation('ff:%s-members' % key, '%s loaded %r, declared %r' % (key, [b['name'] for b in got[key]], [b['name'] for b in expected[key]]), case)
            return
    diff = first_difference(got, expected)
    if diff:
        top = diff.split('[')[0].strip('.').split('.')[0] or 'content'
        sub = 'content'
        for word in ('interactions', 'nodes', 'edges', 'non_edges', 'removed', 'patterns', 'features', 'molecule_meta', 'meta', 'variables'):
            if '.' + word in diff or diff.startswith('.' + word):
                sub = word
                break
        acc.violation('ff:%s-%s' % (top, sub), 'loaded content differs from the declaration at %s' % diff, case)
        return
    # block-level citation subsections
    for block in ff.blocks.values():
        if block.name.startswith('BA') and 'own%s' % block.name[2:] not in block.citations:
            acc.violation('ff:block-citation', 'block %s lost its own citation' % block.name, case)


# ----------------------------------------------------------------------------- faults

def ff_faults(lines, owner):
    """Yield (kind, line number, mutated lines)."""
    section = None
    top = None
    for idx, line in enumerate(lines):
        stripped = line.split(';')[0].strip()
        if stripped.startswith('['):
            name = stripped.strip('[ ]')
            if name in ('moleculetype', 'link', 'modification', 'macros', 'variables', 'citations'):
                top = name
                section = None
            else:
                section = name
            # unknown section with one content line, before every header
            yield 'unknown-section', idx, lines[:idx] + ['[ nosuchsection ]', 'foo bar'] + lines[idx:]
            continue
        if not stripped or stripped.startswith('#meta'):
            if stripped.startswith('#meta'):
                yield 'unbalanced-braces', idx, lines[:idx] + [line.rstrip()[:-1]] + lines[idx + 1:]
            continue
        if '{' in stripped and stripped.endswith('}'):
            yield 'unbalanced-braces', idx, lines[:idx] + [stripped[:-1]] + lines[idx + 1:]
        if top == 'moleculetype' and section == 'atoms':
            yield 'duplicate-block-atom', idx, lines[:idx + 1] + [line] + lines[idx + 1:]
        if top == 'moleculetype' and section in ('bonds', 'angles', 'dihedrals', 'constraints'):
            tokens = stripped.split()
            natoms = {'bonds': 2, 'angles': 3, 'dihedrals': 4, 'constraints': 2}[section]
            for pos in range(natoms):
                if tokens[pos] == '--':
                    break
                for bad in ('ZZ', '9', '0'):
                    new = list(tokens)
                    new[pos] = bad
                    yield 'undefined-block-atom(%s)' % bad, idx, lines[:idx] + [' '.join(new)] + lines[idx + 1:]
            # wrong atom count: only the first atom, then the delimiter
            yield 'wrong-atom-count', idx, lines[:idx] + [tokens[0] + ' -- ' + ' '.join(tokens[natoms:])] + lines[idx + 1:]
            yield 'wrong-atom-count', idx, lines[:idx] + [tokens[0]] + lines[idx + 1:]
        if top == 'moleculetype' and section == 'edges':
            tokens = stripped.split()
            yield 'undefined-block-atom(edge)', idx, lines[:idx] + [tokens[0] + ' ZZ'] + lines[idx + 1:]
        if top == 'link' and section in ('bonds', 'angles', '!angles', 'atoms'):
            tokens = stripped.split()
            for pos, tok in enumerate(tokens):
                if tok.startswith('+') and not tok.startswith('++'):
                    if pos + 1 < len(tokens) and tokens[pos + 1].startswith('{'):
                        continue
                    # '+' says order 1; every other explicit order contradicts it - also 0 (the order of an unprefixed atom)
                    for other in ('2', '0', '-1', '"<"'):
                        new = list(tokens)
                        new[pos] = tok + ' {"order": %s}' % other
                        yield 'prefix-order-contradiction', idx, lines[:idx] + [' '.join(new)] + lines[idx + 1:]
                    break
            if top == 'link' and section == 'bonds':
                # an atom mentioned only once, so that no other mention of it can expose the contradiction
                for other in ('2', '0', '-1', '"<"'):
                    yield 'prefix-order-contradiction', idx, lines[:idx + 1] + ['BB +ZZ {"order": %s} 1 0.3' % other] + lines[idx + 1:]
            if section in ('bonds', 'angles'):
                yield 'wrong-atom-count', idx, lines[:idx] + [tokens[0] + ' -- 1 0.2'] + lines[idx + 1:]


def check_ff_faults(seq, acc):
    lines, expected, owner = ff_file(seq)
    if expected == 'error':
        return
    for kind, idx, mutated in ff_faults(lines, owner):
        case = {'layer': 'ff-fault', 'chunks': list(seq), 'fault': kind, 'line': idx}
        try:
            load_ff(mutated)
            outcome = 'loaded'
        except Exception:   # pylint: disable=broad-except
            outcome = 'rejected'
        acc.case(nontrivial=True, outcome=('fault', kind, outcome),
                 sample=dict(case, mutated_line=mutated[idx] if idx < len(mutated) else '') if acc.states % 211 == 0 else None)
        if outcome == 'loaded':
            acc.violation('ff-fault-accepted:%s' % kind, 'malformed file loaded without error: %s at line %d (%r)' % (
                kind, idx + 1, mutated[idx:idx + 2]), case)


def check_ff_two_files(seq1, seq2, acc):
    """Two files into one ForceField object: the result must be the first file's content followed by the second's."""
    from vermouth.forcefield import ForceField
    from vermouth.ffinput import read_ff
    lines1, exp1, _ = ff_file(seq1)
    # the second file gets indices that continue after the first, so that names stay unique
    st = {}
    lines2, exp2 = [], {'variables': {}, 'blocks': [], 'links': [], 'modifications': []}
    seen_context = False
    error2 = False
    for i, kind in enumerate(seq2, start=len(seq1)):
        chunk_lines, (what, declared) = FF_CHUNKS[kind](i, st)
        if kind == 'variables' and seen_context:
            error2 = True
        if kind in CONTEXT:
            seen_context = True
        lines2.extend(chunk_lines)
        if what == 'variables':
            exp2['variables'].update(declared)
        elif what:
            exp2[what + 's'].append(declared)
    if exp1 == 'error' or error2:
        return
    case = {'layer': 'ff-two-files', 'first': list(seq1), 'second': list(seq2)}
    ff = ForceField(name='verif')
    try:
        read_ff(lines1, ff)
        read_ff(lines2, ff)
    except Exception as err:   # pylint: disable=broad-except
        acc.case(outcome='err')
        acc.violation('ff:two-files-rejected', 'two well-formed files into one force field: %r' % (err,), case)
        return
    got = {'variables': cv(dict(ff.variables)), 'blocks': [canon_block(b) for b in ff.blocks.values()],
           'links': [canon_link(l) for l in ff.links], 'modifications': [canon_link(m) for m in ff.modifications.values()]}
    expected = {'variables': dict(exp1['variables'], **exp2['variables']), 'blocks': exp1['blocks'] + exp2['blocks'],
                'links': exp1['links'] + exp2['links'], 'modifications': exp1['modifications'] + exp2['modifications']}
    acc.case(nontrivial=True, outcome=('ff2', len(got['blocks']), len(got['links']), len(got['modifications'])),
             sample=case if acc.states % 211 == 0 else None)
    diff = first_difference(got, expected)
    if diff:
        acc.violation('ff:two-files-content', 'after reading two files into one force field the content differs from first + second at %s' % diff, case)


def work(task):
    common.bind_repo()
    kind, items = task
    acc = Acc()
    if kind == 'ff2':
        for seq1, seq2 in items:
            check_ff_two_files(seq1, seq2, acc)
        return acc
    if kind == 'ff':
        for n, seq in enumerate(items):
            check_ff(seq, acc, sample=(n % 401 == 0))
    elif kind == 'ff-fault':
        for seq in items:
            check_ff_faults(seq, acc)
    else:
        from props import c13_other
        c13_other.work_items(kind, items, acc)
    return acc


def sequences(max_len):
    kinds = list(FF_CHUNKS)
    for length in range(1, max_len + 1):
        for seq in itertools.product(kinds, repeat=length):
            yield seq


def run(ctx):
    max_len = 3 if ctx.quick else int(os.environ.get('VERIF_C13_LEN', '6'))
    fault_len = 2 if ctx.quick else int(os.environ.get('VERIF_C13_FAULT_LEN', '4'))
    ctx.bound = {'ff_top_level_sections': max_len, 'fault_injection_file_length': fault_len}
    seqs = list(sequences(max_len))
    acc = Acc()
    for part in common.pmap(work, [('ff', chunk) for chunk in common.chunked(seqs, max(1, len(seqs) // 64))]):
        acc += part
    ctx.layer('ff-sequences', acc)
    fseqs = list(sequences(fault_len))
    acc = Acc()
    for part in common.pmap(work, [('ff-fault', chunk) for chunk in common.chunked(fseqs, max(1, len(fseqs) // 64))]):
        acc += part
    ctx.layer('ff-faults', acc)
    short = [s for s in seqs if len(s) <= 2]
    pairs = [(a, b) for a in short for b in short if 'macros' not in b or 'macros' in a or True]
    if ctx.quick:
        pairs = [(a, b) for a in short for b in short if len(a) + len(b) <= 3]
    acc = Acc()
    for part in common.pmap(work, [('ff2', chunk) for chunk in common.chunked(pairs, max(1, len(pairs) // 64))]):
        acc += part
    ctx.layer('ff-two-files-one-force-field', acc)
    from props import c13_other
    c13_other.run_layers(ctx)


def replay(case):
    common.bind_repo()
    acc = Acc()
    layer = case['layer']
    if layer == 'ff-two-files':
        check_ff_two_files(tuple(case['first']), tuple(case['second']), acc)
    elif layer == 'ff':
        check_ff(tuple(case['chunks']), acc)
    elif layer == 'ff-fault':
        lines, expected, owner = ff_file(tuple(case['chunks']))
        for kind, idx, mutated in ff_faults(lines, owner):
            if kind == case['fault'] and idx == case['line']:
                try:
                    load_ff(mutated)
                    acc.violation('ff-fault-accepted:%s' % kind, 'malformed file loaded: %s at line %d' % (kind, idx + 1), case)
                except Exception:   # pylint: disable=broad-except
                    pass
    else:
        from props import c13_other
        return c13_other.replay(case)
    return [(s, d) for s, d, _ in acc.violations]
