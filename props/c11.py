"""
C11 — the topology depends on the chemistry of the input, not on its presentation.

Engine C on the real program: bin/martinize2's own entry() (in-process driver, bound to real sub-processes).
Base inputs: tri-alanine, ala5 and 4-residue peptides cut from the repository's test structures (1bta with
hydrogens; villin for MET; bpti for a disulfide) so that all 20 residue types, a disulfide and a histidine
occur.  Options: default, -elastic, -p backbone, -ss, -nt, -cys none, -ff martini22.
For each (input, options): the 0-deviation run, then EVERY 1-deviation run:
  * each adjacent transposition of two atoms within each residue (serials renumbered), each atom moved to the
    front of its residue, each residue listed backwards,
  * each single hydrogen renamed, and all hydrogens renamed at once,
  * each of the 24 axis rotations combined with a decimal translation, applied in the PDB text (exact),
  * each hash seed of the seed set (one interpreter per seed),
thorough: pairs (motion x transposition) and (all-hydrogens-renamed x transposition).
Oracle: differential on the canonical ITP records (atoms, types, charges, every interaction with its
parameters; comments and header ignored) and on the coordinates after undoing the motion.  Admissible, as the
property says: the fifth decimal of a length and elastic bonds whose distance is within 1e-6 of a cut-off.
"""
import itertools
import json
import os
import shutil
import subprocess
import sys
import tempfile

from mc import common, cli, readers
from mc.common import Acc
from props.c09 import ROTS, move

RULE = ("every 1-deviation presentation of every (base input, option set); distinct = distinct (input, options, deviation); "
        "non-trivial = every deviated run (a pair of runs is compared)")
ASSUMPTIONS = ["motions are the 24 axis rotations with decimal translations applied to the PDB text (arbitrary angles would re-round the "
               "3-decimal coordinates, i.e. change the input)",
               "hash seeds: a finite seed set, one interpreter per seed",
               "numeric parameters are compared with a tolerance of 2e-5 (relative to max(1,|x|)), coordinates with 2e-3 Angstrom"]

DATA = os.path.join(common.REPO, 'vermouth', 'tests', 'data')
FRAGMENTS = {
    'tri-ala': ('tri_alanine.pdb', None),
    'ala1-zwitterion': ('ala5.pdb', 'zwitterion'),
    'ala5': ('ala5.pdb', None),
    # two side-chain atoms given in alternate conformations A and B (B is displaced): conformation A is the one documented to be used
    'ala5-altloc': ('ala5.pdb', 'altloc'),
    'bta15-18': ('1bta.pdb', [('A', 15, 18)]),      # ASP LEU HIS GLN
    'bta38-41': ('1bta.pdb', [('A', 38, 41)]),      # TRP ASP CYS LEU
    'bta3-6': ('1bta.pdb', [('A', 3, 6)]),          # ALA VAL ILE ASN
    'bta7-10': ('1bta.pdb', [('A', 7, 10)]),        # GLY GLU GLN ILE
    'bta11-14': ('1bta.pdb', [('A', 11, 14)]),      # ARG SER ILE SER
    'bta19-22': ('1bta.pdb', [('A', 19, 22)]),      # THR LEU LYS LYS
    'bta27-30': ('1bta.pdb', [('A', 27, 30)]),      # PRO GLU TYR TYR
    'bta55-58': ('1bta.pdb', [('A', 55, 58)]),      # GLN PHE GLU GLN
    'villin52-55': ('integration_tests/tier-1/villin/aa.pdb', [(None, 52, 55)]),   # GLY MET THR ARG
    'bpti-ss': ('integration_tests/tier-1/bpti/aa.pdb', [(None, 4, 6), (None, 54, 56)]),   # disulfide 5-55
    # two chains (the second range re-lettered to chain B): ALA VAL ILE ASN / THR LEU LYS LYS
    'bta-two-chains': ('1bta.pdb', [('A', 3, 6, 'A'), ('A', 19, 22, 'B')]),
    # longer pieces for the elastic-network options (C15): one chain of ten residues; two chains of four and three residues
    'bta3-12': ('1bta.pdb', [('A', 3, 12)]),
    'bta-two-chains-6': ('1bta.pdb', [('A', 3, 8, 'A'), ('A', 19, 21, 'B')]),
    'bta15-22': ('1bta.pdb', [('A', 15, 18, 'A'), ('A', 19, 22, 'B')]),
    'bta3-22': ('1bta.pdb', [('A', 3, 22)]),                                     # helix and loop, for the DSSP route (C17)        # two chains that touch (consecutive in the protein)
}
PAIR_INPUTS = ('tri-ala', 'ala5', 'bta15-18', 'bta-two-chains')      # thorough: inputs that also get pairs of deviations
OPTIONS = {
    'default': [],
    'elastic': ['-elastic'],
    'posres': ['-p', 'backbone'],
    'ss': ['-ss', 'C'],
    'nt': ['-nt'],
    'cys-none': ['-cys', 'none'],
    'martini22': ['-ff', 'martini22', '-elastic'],
    'merge': ['-merge', 'A,B'],
    'bonds-name': ['-bonds-from', 'name'],
    'bonds-fudge1': ['-bonds-fudge', '1.0'],
    'merge-all-elastic': ['-merge', 'all', '-elastic'],
    # hydrogens ignored: their names and their places in the file are no part of the chemistry that is left
    'ignh': ['-ignh'],
    # the same structure given as a GRO file (no element column: the element is read off the name, 'HB1' and '1HB' alike)
    'gro-ignh': ['-ignh', '-elastic'],
    'gro': [],
}


# ----------------------------------------------------------------------------- PDB text manipulation

def load_atoms(name):
    path, ranges = FRAGMENTS[name]
    atoms = []
    with open(os.path.join(DATA, path)) as handle:
        for line in handle:
            if line.startswith('ENDMDL'):
                break
            if not line.startswith('ATOM'):
                continue
            line = line.rstrip('\n').ljust(80)
            chain, resid = line[21], int(line[22:26])
            if line[16] not in ' A':
                continue
            if ranges == 'altloc' and line[12:16].strip() == 'CB' and resid in (2, 3):
                first = line[:16] + 'A' + line[17:]
                atoms.append({'line': first, 'name': first[12:16], 'res': (chain, resid, first[26]),
                              'xyz': (float(first[30:38]), float(first[38:46]), float(first[46:54])), 'element': 'C'})
                line = line[:16] + 'B' + line[17:30] + '%8.3f' % (float(line[30:38]) + 0.9) + line[38:]
            if ranges == 'zwitterion':
                # residue 1 with its three amine hydrogens, plus the position of the next residue's N as the second
                # carboxylate oxygen (a real coordinate of the file, 1.33 A from C)
                if resid == 1:
                    pass
                elif resid == 2 and line[12:16].strip() == 'N':
                    line = line[:12] + ' OXT' + line[16:22] + '%4d' % 1 + line[26:76] + ' O' + line[78:]
                    chain, resid = line[21], 1
                else:
                    continue
            elif ranges == 'altloc':
                pass
            elif ranges is not None:
                hit = [r for r in ranges if (r[0] is None or r[0] == chain or chain == ' ') and r[1] <= resid <= r[2]]
                if not hit:
                    continue
                if len(hit[0]) > 3:
                    chain = hit[0][3]
                    line = line[:21] + chain + line[22:]
            atoms.append({'line': line, 'name': line[12:16], 'res': (chain, resid, line[26]),
                          'xyz': (float(line[30:38]), float(line[38:46]), float(line[46:54])),
                          'element': line[76:78].strip() or line[12:16].strip().lstrip('0123456789')[:1]})
    return atoms


def render_pdb(atoms):
    lines = []
    for serial, atom in enumerate(atoms, 1):
        line = atom['line']
        x, y, z = atom['xyz']
        lines.append('%s%5d %s%s%8.3f%8.3f%8.3f%s' % (line[:6], serial, atom['name'], line[16:30], x, y, z, line[54:]))
    return '\n'.join(lines) + '\nEND\n'


def deviations_of(atoms, tier):
    devs = [('none',)]
    residues = {}
    for idx, atom in enumerate(atoms):
        residues.setdefault(atom['res'], []).append(idx)
    for res, idxs in residues.items():
        for a, b in zip(idxs[:-1], idxs[1:]):
            devs.append(('swap', a, b))
    # larger within-residue permutations: every atom moved to the front of its residue, every residue reversed
    for res, idxs in residues.items():
        for a in idxs[1:]:
            devs.append(('to-front', a, idxs[0]))
        if len(idxs) > 2:
            devs.append(('reverse', idxs[0], idxs[-1]))
    hydrogens = [i for i, a in enumerate(atoms) if a['element'] == 'H']
    for i in hydrogens:
        devs.append(('rename-h', i))
    if hydrogens:
        devs.append(('rename-all-h',))
    for ridx in range(len(ROTS)):
        devs.append(('motion', ridx, (ridx % 3)))
    return devs


TRANSLATIONS = [(0.0, 0.0, 0.0), (12.5, -7.25, 3.125), (-101.0, 55.5, 0.375)]


def render_gro(atoms):
    lines = ['presentation of a fragment', '%5d' % len(atoms)]
    for serial, atom in enumerate(atoms, 1):
        line = atom['line']
        x, y, z = atom['xyz']
        lines.append('%5d%-5s%5s%5d%8.3f%8.3f%8.3f' % (int(line[22:26]), line[17:20].strip(), atom['name'].strip(), serial % 100000,
                                                     x / 10.0, y / 10.0, z / 10.0))
    lines.append('  10.00000  10.00000  10.00000')
    return '\n'.join(lines) + '\n'


def apply_deviation(atoms, dev, digit_first=False):
    atoms = [dict(a) for a in atoms]
    kind = dev[0]
    motion = None
    if digit_first and kind in ('rename-h', 'rename-all-h'):
        # the other common convention for hydrogen names: the number in front ('1HB'); the first letter, from which a GRO reader
        # takes the element, is still H
        count = 0
        for idx, atom in enumerate(atoms):
            if atom['element'] == 'H' and (kind == 'rename-all-h' or idx == dev[1]):
                count += 1
                atom['name'] = ('%dH%s' % (count % 10, 'XYZW'[(count // 10) % 4])).ljust(4) if kind == 'rename-all-h' else ('%dHX' % (dev[1] % 10)).ljust(4)
        return atoms, None
    if kind == 'swap':
        atoms[dev[1]], atoms[dev[2]] = atoms[dev[2]], atoms[dev[1]]
    elif kind == 'to-front':
        atom = atoms.pop(dev[1])
        atoms.insert(dev[2], atom)
    elif kind == 'reverse':
        atoms[dev[1]:dev[2] + 1] = atoms[dev[1]:dev[2] + 1][::-1]
    elif kind == 'rename-h':
        atoms[dev[1]]['name'] = ('HX%d' % (dev[1] % 10)).ljust(4)
    elif kind == 'rename-all-h':
        count = 0
        for atom in atoms:
            if atom['element'] == 'H':
                count += 1
                atom['name'] = ('H%03d' % count)[:4]
    elif kind == 'motion':
        rot, trans = ROTS[dev[1]], TRANSLATIONS[dev[2]]
        for atom in atoms:
            atom['xyz'] = tuple(round(v, 3) for v in move(atom['xyz'], rot, trans))
        motion = (rot, trans)
    elif kind == 'pair':
        atoms, m1 = apply_deviation(atoms, dev[1], digit_first)
        atoms, m2 = apply_deviation(atoms, dev[2], digit_first)
        motion = m1 or m2
    return atoms, motion


# ----------------------------------------------------------------------------- running and canonical outputs

def canonical(workdir):
    out = {'itps': {}, 'pdb': None, 'files': sorted(f for f in os.listdir(workdir) if not f.startswith('in'))}
    for name in out['files']:
        path = os.path.join(workdir, name)
        if name.endswith('.itp'):
            parsed = readers.read_itp(open(path).read())
            atoms = [(a['atype'], a['resid'], a['resname'], a['atomname'], a['charge_group'], a['charge'], a['mass']) for a in parsed['atoms']]
            inter = sorted((sec, guard, atoms_, params) for sec, guard, atoms_, params in parsed['interactions'])
            out['itps'][name] = {'moltype': parsed['moltype'], 'nrexcl': parsed['nrexcl'], 'atoms': atoms, 'interactions': inter}
        elif name == 'cg.pdb':
            parsed = readers.read_pdb(open(path).read())
            out['pdb'] = [(a['atomname'].strip(), a['resname'].strip(), a['resid'].strip(), a['chain'], a['x'], a['y'], a['z'])
                          for a in parsed['atoms']]
        elif name.endswith('.top'):
            top = readers.read_top(open(path).read())
            out['top'] = (top['includes'], top['molecules'])
    return out


def run_case(base, name, opts, atoms, dev, tag):
    work = os.path.join(base, tag)
    os.makedirs(work)
    as_gro = opts.startswith('gro')
    deviated, motion = apply_deviation(atoms, dev, digit_first=as_gro)
    infile = 'in.gro' if as_gro else 'in.pdb'
    with open(os.path.join(work, infile), 'w') as handle:
        handle.write(render_gro(deviated) if as_gro else render_pdb(deviated))
    argv = ['-f', infile, '-x', 'cg.pdb', '-o', 'topol.top', '-maxwarn', '100'] + OPTIONS[opts]
    if opts == 'ss':
        nres = len({a['res'] for a in atoms})
        argv = [a if a != 'C' else 'C' * nres for a in argv]
    res = cli.run_inprocess(argv, work)
    out = canonical(work) if res['exit'] == 0 else None
    shutil.rmtree(work, ignore_errors=True)
    return res, out, motion


def numbers_close(a, b):
    try:
        fa, fb = float(a), float(b)
    except ValueError:
        return a == b
    return abs(fa - fb) <= 2e-5 * max(1.0, abs(fa))


def compare(base_out, out, motion, elastic_cutoffs=(0.5, 0.9)):
    """Returns a (signature, text) or None."""
    if out is None or base_out is None:
        return None
    if base_out['files'] != out['files']:
        return 'c11:files', 'output files %r vs %r' % (out['files'], base_out['files'])
    for name, ref in base_out['itps'].items():
        got = out['itps'][name]
        if got['atoms'] != ref['atoms']:
            diff = [(i, g, r) for i, (g, r) in enumerate(zip(got['atoms'], ref['atoms'])) if g != r][:2]
            return 'c11:atoms-differ', '%s: particles differ %r (counts %d vs %d)' % (name, diff, len(got['atoms']), len(ref['atoms']))

        def key(item):
            return (item[0], item[1], item[2])
        gi = {}
        for item in got['interactions']:
            gi.setdefault(key(item), []).append(item[3])
        ri = {}
        for item in ref['interactions']:
            ri.setdefault(key(item), []).append(item[3])
        for k in sorted(set(gi) | set(ri), key=repr):
            a, b = sorted(gi.get(k, [])), sorted(ri.get(k, []))
            if len(a) != len(b) or not all(len(x) == len(y) and all(numbers_close(p, q) for p, q in zip(x, y)) for x, y in zip(a, b)):
                # admissible: an elastic bond whose length sits on a cut-off
                params = (a or b)[0]
                if k[0] == 'bonds' and len(params) >= 2 and params[0] == '6':
                    try:
                        if any(abs(float(params[1]) - c) < 2e-5 for c in elastic_cutoffs):
                            continue
                    except ValueError:
                        pass
                kind = 'missing-or-extra' if len(a) != len(b) else 'parameters'
                return 'c11:interaction-%s' % kind, '%s: %s %r on atoms %r: this presentation %r, reference presentation %r' % (
                    name, k[0], k[1], k[2], a, b)
    if base_out.get('top') != out.get('top'):
        return 'c11:top', 'system topology differs: %r vs %r' % (out.get('top'), base_out.get('top'))
    if base_out['pdb'] is not None:
        if [p[:4] for p in base_out['pdb']] != [p[:4] for p in out['pdb']]:
            return 'c11:coordinate-records', 'coarse-grained structure lists other particles'
        for ref, got in zip(base_out['pdb'], out['pdb']):
            try:
                r = tuple(float(v) for v in ref[4:7])
                g = tuple(float(v) for v in got[4:7])
            except ValueError:
                if [v.strip() for v in ref[4:7]] != [v.strip() for v in got[4:7]]:
                    return 'c11:coordinates', 'particle %r: %r vs %r' % (ref[:3], got[4:7], ref[4:7])
                continue
            expect = move(r, motion[0], motion[1]) if motion else r
            if any((e != e) != (x != x) for e, x in zip(expect, g)):
                return 'c11:coordinates', 'particle %r: defined/undefined coordinates differ: %r vs %r' % (ref[:3], g, expect)
            if any(not abs(e - x) <= 2.5e-3 for e, x in zip(expect, g) if e == e):      # NaN in the output fails
                return 'c11:coordinates', 'particle %r: %r, expected the reference moved by the same motion %r' % (ref[:3], g, tuple(round(e, 3) for e in expect))
    return None


def work(task):
    common.bind_repo()
    name, opts, devs = task
    acc = Acc()
    atoms = load_atoms(name)
    base = tempfile.mkdtemp(prefix='verif_c11_', dir='/dev/shm' if os.path.isdir('/dev/shm') else None)
    try:
        res0, base_out, _ = run_case(base, name, opts, atoms, ('none',), 'base')
        if res0['exit'] != 0:
            raise common.HarnessError('base run of %s/%s failed with exit %r:\n%s' % (name, opts, res0['exit'], res0['stderr'][-1500:]))
        for n, dev in enumerate(devs):
            case = {'input': name, 'options': opts, 'deviation': common.jsonable(dev)}
            res, out, motion = run_case(base, name, opts, atoms, dev, 'd%d' % n)
            acc.case(nontrivial=True, outcome=(name, opts, res['exit'], dev[0]),
                     sample=dict(case, exit=res['exit']) if acc.states % 97 == 0 else None)
            if res['exit'] != res0['exit']:
                acc.violation('c11:exit-status@%s[%s]' % (name, opts), '%s %s: deviation %r makes the run exit with %r instead of %r\n%s' % (
                    name, opts, dev, res['exit'], res0['exit'], res['stderr'][-600:]), case)
                continue
            verdict = compare(base_out, out, motion)
            if verdict:
                acc.violation('%s@%s[%s]' % (verdict[0], name, opts), '%s [%s] deviation %r: %s' % (name, opts, dev, verdict[1]), case)
    finally:
        shutil.rmtree(base, ignore_errors=True)
    return acc


# ----------------------------------------------------------------------------- hash seeds

def seed_worker(seed, plan_path, out_path):
    """Runs in its own interpreter (PYTHONHASHSEED fixed at start): 0-deviation run of every planned (input, options)."""
    common.bind_repo()
    plan = json.load(open(plan_path))
    base = tempfile.mkdtemp(prefix='verif_c11s_')
    results = {}
    try:
        for n, (name, opts, devname) in enumerate(plan):
            atoms = load_atoms(name)
            dev = ('none',)
            if devname == 'reversed-residues':
                residues = {}
                for idx, atom in enumerate(atoms):
                    residues.setdefault(atom['res'], []).append(idx)
                dev = ('none',)
                new = []
                for res, idxs in residues.items():
                    new.extend(atoms[i] for i in reversed(idxs))
                atoms = new
            res, out, _ = run_case(base, name, opts, atoms, dev, 's%d' % n)
            results['%s|%s|%s' % (name, opts, devname)] = {'exit': res['exit'], 'out': out}
    finally:
        shutil.rmtree(base, ignore_errors=True)
    with open(out_path, 'w') as handle:
        json.dump(common.jsonable(results), handle)


def run_seeds(ctx, plan, seeds):
    acc = Acc()
    scratch = tempfile.mkdtemp(prefix='verif_c11seed_')
    try:
        plan_path = os.path.join(scratch, 'plan.json')
        json.dump(plan, open(plan_path, 'w'))
        procs = {}
        for seed in seeds:
            env = dict(os.environ)
            env['PYTHONHASHSEED'] = str(seed)
            out_path = os.path.join(scratch, 'seed%d.json' % seed)
            procs[seed] = (subprocess.Popen([sys.executable, '-W', 'ignore', '-c',
                                             'import sys; sys.path.insert(0, %r); from props import c11; c11.seed_worker(%d, %r, %r)' % (
                                                 common.VERIF, seed, plan_path, out_path)],
                                            env=env, cwd=common.VERIF, stdout=subprocess.PIPE, stderr=subprocess.PIPE), out_path)
        results = {}
        for seed, (proc, out_path) in procs.items():
            _, err = proc.communicate(timeout=1800)
            if proc.returncode != 0:
                raise common.HarnessError('seed worker %d failed:\n%s' % (seed, err.decode()[-1500:]))
            results[seed] = json.load(open(out_path))
        ref_seed = seeds[0]
        for seed in seeds[1:]:
            for key, ref in results[ref_seed].items():
                got = results[seed][key]
                name, opts, devname = key.split('|')
                case = {'input': name, 'options': opts, 'deviation': ['hashseed', seed, devname], 'reference_seed': ref_seed}
                acc.case(nontrivial=True, outcome=('seed', key, got['exit']), sample=case if acc.states % 11 == 0 else None)
                if got['exit'] != ref['exit']:
                    acc.violation('c11:hashseed-exit-status@%s[%s]' % (name, opts), '%s: PYTHONHASHSEED=%d exits %r, seed %d exits %r' % (key, seed, got['exit'], ref_seed, ref['exit']), case)
                    continue

                def thaw(out):
                    if out is None:
                        return None
                    out = dict(out)
                    out['itps'] = {n: {'moltype': v['moltype'], 'nrexcl': v['nrexcl'], 'atoms': [tuple(a) for a in v['atoms']],
                                       'interactions': [(i[0], tuple(tuple(g) for g in i[1]), tuple(i[2]), tuple(i[3])) for i in v['interactions']]}
                                   for n, v in out['itps'].items()}
                    out['pdb'] = [tuple(p) for p in out['pdb']] if out['pdb'] else None
                    out['top'] = (out['top'][0], [tuple(m) for m in out['top'][1]]) if out.get('top') else None
                    return out
                verdict = compare(thaw(ref['out']), thaw(got['out']), None)
                if verdict:
                    acc.violation('c11:hashseed-%s@%s[%s]' % (verdict[0].split(':', 1)[1], name, opts),
                                  '%s: PYTHONHASHSEED=%d vs %d: %s' % (key, seed, ref_seed, verdict[1]), case)
    finally:
        shutil.rmtree(scratch, ignore_errors=True)
    return acc


def bind_driver(name):
    """The in-process driver against the real program for one base input (default options)."""
    common.bind_repo()
    acc = Acc()
    atoms = load_atoms(name)
    base = tempfile.mkdtemp(prefix='verif_c11b_')
    try:
        _, out1, _ = run_case(base, name, 'elastic', atoms, ('none',), 'a')
        _, out2, _ = run_case(base, name, 'elastic', atoms, ('none',), 'b')
        work_dir = os.path.join(base, 'c')
        os.makedirs(work_dir)
        with open(os.path.join(work_dir, 'in.pdb'), 'w') as handle:
            handle.write(render_pdb(atoms))
        sub = cli.run_subprocess(['-f', 'in.pdb', '-x', 'cg.pdb', '-o', 'topol.top', '-maxwarn', '100', '-elastic'], work_dir)
        out3 = canonical(work_dir) if sub['exit'] == 0 else None
        acc.case(nontrivial=True, outcome=('bind', name, sub['exit']), sample={'input': name, 'binding': 'in-process x2 vs real sub-process'})
        if out1 != out2:
            raise common.HarnessError('in-process driver is not repeatable on %s' % name)
        if out1 != out3:
            raise common.HarnessError('in-process driver disagrees with the real program on %s (exit %r)\n%s' % (name, sub['exit'], sub['stderr'][-800:]))
    finally:
        shutil.rmtree(base, ignore_errors=True)
    return acc


def run(ctx):
    if ctx.quick:
        inputs = ['tri-ala', 'ala5', 'ala1-zwitterion', 'bta15-18', 'bta38-41', 'villin52-55', 'bpti-ss', 'bta-two-chains', 'ala5-altloc']
        optsets = {'bta-two-chains': ['default', 'merge'], 'ala5-altloc': ['default'], 'tri-ala': ['default', 'posres', 'ss', 'nt', 'bonds-name', 'gro-ignh'], 'ala5': ['elastic', 'nt', 'ignh'], 'ala1-zwitterion': ['default'], 'bta15-18': ['elastic', 'martini22', 'gro-ignh'], 'bta38-41': ['elastic', 'cys-none', 'bonds-fudge1'],
                   'villin52-55': ['elastic'], 'bpti-ss': ['elastic', 'cys-none']}
        seeds = [0, 1, 2, 3 + ctx.seed % 50]
    else:
        inputs = list(FRAGMENTS)
        full = [o for o in OPTIONS if not o.startswith('merge') and not o.startswith('bonds') and o != 'gro']
        # every option set on six inputs; the other 1bta windows (same code paths, other residue types) with two
        optsets = {name: list(full) if name in ('tri-ala', 'ala5', 'bta15-18', 'bta38-41', 'villin52-55', 'bpti-ss') else ['default', 'elastic']
                   for name in inputs}
        optsets['tri-ala'] += ['bonds-name']
        optsets['bta38-41'] += ['bonds-fudge1', 'bonds-name']
        optsets['bta-two-chains'] = ['default', 'merge', 'merge-all-elastic', 'nt']
        for skip in ('bta3-12', 'bta-two-chains-6', 'bta15-22', 'bta3-22'):      # inputs of other properties' CLI layers
            optsets.pop(skip, None)
            inputs.remove(skip)
        seeds = list(range(16)) + [100 + ctx.seed % 1000]
    ctx.bound = {'inputs': inputs, 'deviations': 1 if ctx.quick else '1, plus pairs (motion x transposition), (all-H renamed x transposition) on %s' % (PAIR_INPUTS,),
                 'hash_seeds': seeds}
    acc = Acc()
    for part in common.pmap(bind_driver, inputs):
        acc += part
    ctx.layer('driver-binding', acc)
    tasks = []
    for name in inputs:
        atoms = load_atoms(name)
        devs = deviations_of(atoms, ctx.tier)[1:]
        if not ctx.quick and name in PAIR_INPUTS:
            swaps = [d for d in devs if d[0] == 'swap']
            motions = [d for d in devs if d[0] == 'motion'][::5]
            devs = devs + [('pair', m, s) for m in motions for s in swaps[::3]] + \
                [('pair', ('rename-all-h',), s) for s in swaps[::2] if any(a['element'] == 'H' for a in atoms)]
        for opts in optsets[name]:
            mine = devs
            if opts == 'bonds-name':
                # with -bonds-from name the atom names ARE the connectivity the user asks for: a hydrogen given a name the block
                # does not know is an atom bonded to nothing, i.e. another molecule, not another presentation of the same one
                # (one renamed hydrogen on TRP38 of bta38-41 makes the largest common subgraph drop CB instead: SC1 moves 0.7 A,
                # rightly).  Orders, rigid motions and hash seeds remain.
                mine = [d for d in devs if 'rename' not in repr(d)]
            if opts.startswith('gro'):
                # a GRO file holds 0.01 A: a translation would re-round the coordinates, i.e. change the input; orders and names remain
                mine = [d for d in mine if 'motion' not in repr(d)]
            for chunk in common.chunked(mine, max(8, len(mine) // 6)):
                tasks.append((name, opts, chunk))
    acc = Acc()
    for part in common.pmap(work, tasks):
        acc += part
    ctx.layer('presentations', acc)
    plan = [(name, opts, devname) for name in inputs for opts in optsets[name] for devname in ('as-given', 'reversed-residues')]
    ctx.layer('hash-seeds', run_seeds(ctx, plan, seeds))


def replay(case):
    common.bind_repo()
    dev = case['deviation']
    if dev and dev[0] == 'hashseed':
        ctx_plan = [(case['input'], case['options'], dev[2] if len(dev) > 2 else 'as-given')]

        class _Ctx:
            seed = 0
        acc = run_seeds(_Ctx(), ctx_plan, [case.get('reference_seed', 0), dev[1]])
        return [(s, d) for s, d, _ in acc.violations]

    def thaw_dev(d):
        return tuple(thaw_dev(x) if isinstance(x, list) else x for x in d)
    acc = work((case['input'], case['options'], [thaw_dev(dev)]))
    return [(s, d) for s, d, _ in acc.violations]
