"""
C07 layer 4 (shared with C08) — the CLI gate of bin/martinize2.

Every run of a small run alphabet is executed through the in-process driver (mc/cli.py: the
script's own entry()) in a private directory pre-populated with files that carry the names of the
outputs.  Oracle: leftover = C08's reference formula applied to the records the run logged;
leftover > 0  =>  exit status != 0 and the directory is byte-identical (requested -write-graph dump aside);
leftover == 0 =>  exit 0, outputs present with new content, every pre-existing file intact under '#name.1#'.
A covering subset of the runs is repeated as real sub-processes and must agree (exit status,
directory listing, file bodies) with the in-process run of the same argument list.
"""
import itertools
import logging
import os
import shutil
import tempfile

from mc import common, cli
from mc.common import Acc
from props import c08

GATE_TEXT = 'warnings were encountered after accounting'
ALA5 = os.path.join(common.REPO, 'vermouth', 'tests', 'data', 'ala5.pdb')


def input_text(kind):
    with open(ALA5) as handle:
        lines = handle.read().splitlines()
    if kind.startswith('alt'):
        n = int(kind[3:])
        out = []
        for line in lines:
            out.append(line)
            if (line.startswith('ATOM') and line[12:16].strip() == 'CB'
                    and int(line[22:26]) in list(range(2, 2 + n))):
                out.append(line[:16] + 'B' + line[17:])
        lines = out
    return '\n'.join(lines) + '\n'


SWITCHES = {
    'none': [], 'scfix': ['-scfix'], 'ed': ['-ed'], 'collagen': ['-collagen'],
    'scfix+ed': ['-scfix', '-ed'], 'ed+collagen': ['-ed', '-collagen'],
}
MAXWARN = {
    'absent': [],
    '0': [['0']], '1': [['1']], '5': [['5']],
    'alt': [['pdb-alternate']], 'alt:1': [['pdb-alternate:1']], 'alt:2': [['pdb-alternate:2']],
    'general': [['general']], 'feature:1': [['missing-feature:1']],
    'other-type': [['unknown-residue']],
    '5 then 1': [['5'], ['1']], '1 then 5': [['1'], ['5']],
    'alt:2 alt:1': [['pdb-alternate:2', 'pdb-alternate:1']],
    'alt:1 + general': [['pdb-alternate:1', 'general']],
    'feature:2 then feature:1': [['missing-feature:2'], ['missing-feature:1']],
}
OUTPUTS = {'x': ['-x', 'cg.pdb'], 'x+o': ['-x', 'cg.pdb', '-o', 'topol.top']}
EXTRA = {'none': [], 'graph': ['-write-graph', 'graph.pdb'], 'ffwarn': ['-ff-dir', 'extra_ff'],
         'blockwarn': ['-ff-dir', 'extra_ff', '-map-dir', 'extra_map']}
# a force-field extension that re-defines the ALA block with a [ warning ]: one warning per alanine residue of the input
BLOCK_MARK = 'are provisional (verif block warning)'
BLOCK_FF = '''[ moleculetype ]
ALA 1
[ atoms ]
 1 SP2 1 ALA BB  1 0
 2 TC3 1 ALA SC1 2 0
[ bonds ]
 BB SC1 1 0.270 100000
[ warning ]
The alanine parameters of residue {BB[resname]}{BB[resid]} %s.
''' % BLOCK_MARK
MAXWARN.update({'3': [['3']], '4': [['4']], 'model:3': [['model:3']], 'model': [['model']], 'model:4': [['model:4']],
                # an explicit budget of zero for one type is a number, not "waive the type"
                'alt:0': [['pdb-alternate:0']], 'general:0': [['general:0']], 'model:0': [['model:0']]})
# a force-field extension whose link carries a [ warning ]: it applies once per pair of consecutive residues, so a
# peptide of N residues gives N - 1 warnings (counted here from the input, not from what the program logged)
LINK_MARK = 'has no parameters (verif link warning)'
LINK_FF = '''[ link ]
[ atoms ]
BB {"resname": "ALA"}
+BB {"resname": "ALA"}
[ edges ]
BB +BB
[ warning ]
Peptide bond between {BB[resname]}{BB[resid]} and {+BB[resname]}{+BB[resid]} %s.
''' % LINK_MARK
N_RES = 5

OLD = {'cg.pdb': 'OLD cg.pdb\n', 'topol.top': 'OLD topol.top\n', 'molecule_0.itp': 'OLD molecule_0.itp\n',
       'unrelated.txt': 'keep me\n'}


def argv_of(run):
    inp, sw, mw, outp, extra = run
    argv = ['-f', 'in.pdb'] + OUTPUTS[outp] + SWITCHES[sw] + EXTRA[extra]
    for group in MAXWARN[mw]:
        argv += ['-maxwarn'] + group
    return argv


def listing(directory):
    out = {}
    for base, _, files in os.walk(directory):
        for name in files:
            full = os.path.join(base, name)
            with open(full, 'rb') as handle:
                out[os.path.relpath(full, directory)] = handle.read().decode('utf8', 'replace')
    return out


def prepare(base, run, tag):
    work = os.path.join(base, tag)
    os.makedirs(work)
    with open(os.path.join(work, 'in.pdb'), 'w') as handle:
        handle.write(input_text(run[0]))
    for name, text in OLD.items():
        with open(os.path.join(work, name), 'w') as handle:
            handle.write(text)
    if run[4] == 'ffwarn':
        os.makedirs(os.path.join(work, 'extra_ff', 'martini3001'))
        with open(os.path.join(work, 'extra_ff', 'martini3001', 'warn.ff'), 'w') as handle:
            handle.write(LINK_FF)
    if run[4] == 'blockwarn':
        os.makedirs(os.path.join(work, 'extra_ff', 'martini3001'))
        os.makedirs(os.path.join(work, 'extra_map'))
        with open(os.path.join(work, 'extra_ff', 'martini3001', 'ala_warn.ff'), 'w') as handle:
            handle.write(BLOCK_FF)
        # the mapping has to be read again so that it refers to the new block
        shutil.copy(os.path.join(common.REPO, 'vermouth', 'data', 'mappings', 'martini3001', 'ala.charmm36.map'),
                    os.path.join(work, 'extra_map', 'ala.charmm36.map'))
    return work


def is_dump(name):
    base = os.path.basename(name)
    return base == 'graph.pdb' or (base.startswith('#graph.pdb.') and base.endswith('#'))


def expected_leftover(records, run):
    counts = {}
    for level, typ, message in records:
        if level < logging.WARNING or GATE_TEXT in message:
            continue
        counts.setdefault(level, {})
        counts[level][typ] = counts[level].get(typ, 0) + 1
    script = cli.load_script()
    specs = []
    for group in MAXWARN[run[2]]:
        for item in group:
            specs.append(c08.ref_maxwarn(item))
    return c08.reference(counts, specs), counts


class _Collector(logging.Handler):
    def __init__(self):
        super().__init__(level=1)
        self.records = []

    def emit(self, record):
        try:
            message = str(record.msg)
        except Exception:
            message = ''
        self.records.append((record.levelno, getattr(record, 'type', 'general'), message))


def one_run(base, run, acc, tag='r', prop='C07'):
    case = {'layer': 'cli', 'run': list(run), 'argv': argv_of(run)}
    work = prepare(base, run, tag)
    before = listing(work)
    collector = _Collector()
    logger = logging.getLogger('vermouth')
    logger.addHandler(collector)
    try:
        res = cli.run_inprocess(argv_of(run), work)
    finally:
        logger.removeHandler(collector)
    after = listing(work)
    leftover, counts = expected_leftover(collector.records, run)
    n_warn = sum(sum(v.values()) for v in counts.values())
    outputs = ['cg.pdb'] + (['topol.top', 'molecule_0.itp'] if run[3] == 'x+o' else [])
    acc.case(nontrivial=n_warn > 0, outcome=('cli', res['exit'], leftover > 0, sorted(after)),
             sample=dict(case, exit=res['exit'], warnings={str(k): v for k, v in counts.items()}, leftover_expected=leftover,
                         files=sorted(after)) if acc.states % 97 == 0 else None)
    sig = None
    n_link = sum(1 for level, typ, message in collector.records if level >= logging.WARNING and LINK_MARK in message)
    n_block = sum(1 for level, typ, message in collector.records if level >= logging.WARNING and BLOCK_MARK in message)
    if run[4] == 'blockwarn' and n_block != N_RES:
        sig, desc = 'cli:block-warning-not-per-residue', ('the warning of a force-field block that builds %d residues was logged %d time(s): every '
                                                         'residue counts against -maxwarn' % (N_RES, n_block))
    elif run[4] == 'ffwarn' and n_link != N_RES - 1:
        sig, desc = 'cli:link-warning-not-per-match', ('the warning of a force-field link that applies %d times was logged %d time(s): '
                                                      'every application counts against -maxwarn' % (N_RES - 1, n_link))
    elif sum(1 for level, typ, _ in collector.records if level >= logging.WARNING and typ == 'pdb-alternate') != (
            int(run[0][3:]) if run[0].startswith('alt') else 0):
        # the input holds exactly that many atom records with an alternate location other than A: one warning each
        sig, desc = 'cli:alternate-warning-count', 'the input has %s atom record(s) with alternate location B, %d pdb-alternate warning(s) were logged' % (
            run[0][3:] if run[0].startswith('alt') else '0',
            sum(1 for level, typ, _ in collector.records if level >= logging.WARNING and typ == 'pdb-alternate'))
    elif leftover > 0:
        changed = sorted(k for k in set(before) | set(after) if before.get(k) != after.get(k) and not is_dump(k))
        if res['exit'] == 0:
            sig, desc = 'cli:unwaived-warnings-exit-0', 'exit 0 although %d warning(s) are left after -maxwarn (%r)' % (leftover, counts)
        elif changed:
            sig, desc = 'cli:output-despite-warnings', 'exit %d with %d warning(s) left, but files changed: %r' % (res['exit'], leftover, changed)
    else:
        if res['exit'] != 0:
            sig, desc = 'cli:refused-although-covered', 'exit %d although every warning is covered (%r, -maxwarn %s)\n%s' % (
                res['exit'], counts, run[2], res['stderr'][-600:])
        else:
            missing = [o for o in outputs if o not in after or after[o] == OLD.get(o)]
            lost = [k for k, v in before.items() if k != 'in.pdb' and after.get(k) != v
                    and after.get(os.path.join(os.path.dirname(k), '#%s.1#' % os.path.basename(k))) != v]
            if missing:
                sig, desc = 'cli:output-missing', 'exit 0 but outputs %r were not written' % (missing,)
            elif lost:
                sig, desc = 'cli:existing-file-lost', 'pre-existing %r neither intact nor backed up as #name.1#; directory %r' % (lost, sorted(after))
    if sig:
        acc.violation(sig, '%s: %s' % (' '.join(argv_of(run)), desc), case)
    return res, after


def all_runs(tier, focus):
    if focus == 'maxwarn':      # C08's slice: every -maxwarn form against every warning mix
        inputs, switches, outs, extras = ['clean', 'alt1', 'alt2'], ['none', 'scfix', 'ed+collagen'], ['x'], ['none']
        maxwarns = list(MAXWARN)
    else:
        inputs = ['clean', 'alt1', 'alt2']
        switches = list(SWITCHES)
        outs, extras = list(OUTPUTS), list(EXTRA)
        maxwarns = list(MAXWARN)
        if tier == 'quick':
            switches = ['none', 'scfix', 'ed', 'ed+collagen']
            maxwarns = ['absent', '1', '5', 'alt', 'alt:1', 'alt:2', 'general', 'other-type', '5 then 1', 'alt:2 alt:1']
    for special in ('ffwarn', 'blockwarn'):
        if special in extras:
            extras.remove(special)
    runs = list(itertools.product(inputs, switches, maxwarns, outs, extras))
    if focus == 'maxwarn':
        # warnings that come from the force field itself (one per link match / per residue of a block)
        runs += [('clean', 'none', mw, 'x', 'ffwarn') for mw in ('absent', '3', '4', 'model:3', 'model')]
        runs += [('clean', 'none', mw, 'x', 'blockwarn') for mw in ('absent', '4', '5', 'model:4', 'model')]
    if focus != 'maxwarn':
        ffw = ['absent', '1', '3', '4', '5', 'model', 'model:3', 'other-type', 'general']
        runs += [('clean', 'none', mw, 'x+o', 'ffwarn') for mw in ffw] + [('alt1', 'scfix', mw, 'x', 'ffwarn') for mw in ffw[:6]]
        runs += [('clean', 'none', mw, 'x+o', 'blockwarn') for mw in ('absent', '4', '5', 'model:4', 'model', 'model:0')]
        runs += [('alt1', 'none', 'alt:0', 'x', 'none'), ('alt2', 'scfix', 'general:0', 'x+o', 'none'), ('alt2', 'none', 'alt:0', 'x', 'graph'),
                 ('clean', 'scfix', 'general:0', 'x', 'none'), ('clean', 'none', 'model:0', 'x', 'ffwarn')]
    return runs


def work(task):
    common.bind_repo()
    runs, prop = task
    acc = Acc()
    base = tempfile.mkdtemp(prefix='verif_cli_', dir='/dev/shm' if os.path.isdir('/dev/shm') else None)
    try:
        for idx, run in enumerate(runs):
            one_run(base, run, acc, tag='r%d' % idx, prop=prop)
            shutil.rmtree(os.path.join(base, 'r%d' % idx), ignore_errors=True)
    finally:
        shutil.rmtree(base, ignore_errors=True)
    return acc


def bind_work(run):
    """One run in-process twice and once as a real sub-process; all three must agree."""
    common.bind_repo()
    acc = Acc()
    base = tempfile.mkdtemp(prefix='verif_clib_', dir='/dev/shm' if os.path.isdir('/dev/shm') else None)
    try:
        dummy = Acc()
        # the first run is the first thing this newly forked process does: it is judged like any other run
        # (a run that behaves differently as the first of its process than after others is caught here)
        res1, after1 = one_run(base, run, acc, tag='a')
        res2, after2 = one_run(base, run, dummy, tag='b')
        work_dir = prepare(base, run, 'c')
        sub = cli.run_subprocess(argv_of(run), work_dir)
        after3 = listing(work_dir)
        acc.case(nontrivial=True, outcome=('bind', sub['exit'], sorted(after3)),
                 sample={'layer': 'cli-binding', 'argv': argv_of(run), 'exit': sub['exit'], 'files': sorted(after3)})
        if acc.violations:
            return acc
        if (res1['exit'], after1) != (res2['exit'], after2):
            raise common.HarnessError('in-process driver is not repeatable for %r' % (argv_of(run),))
        if (res1['exit'], after1) != (sub['exit'], after3):
            diff = sorted(k for k in set(after1) | set(after3) if after1.get(k) != after3.get(k))
            raise common.HarnessError('in-process driver disagrees with the real program for %r: exit %r vs %r, files differing %r\n%s' % (
                argv_of(run), res1['exit'], sub['exit'], diff, sub['stderr'][-800:]))
    finally:
        shutil.rmtree(base, ignore_errors=True)
    return acc


def covering_subset(runs, n):
    """Greedy cover: every value of every dimension at least once, then fill up to n."""
    chosen, seen = [], set()
    for run in runs:
        vals = {(i, v) for i, v in enumerate(run)}
        if not vals <= seen:
            chosen.append(run)
            seen |= vals
    step = max(1, len(runs) // max(1, n))
    for run in runs[::step]:
        if len(chosen) >= n:
            break
        if run not in chosen:
            chosen.append(run)
    return chosen[:max(n, 1)]


def run_layer(ctx, focus='gate', name='cli-gate'):
    runs = all_runs(ctx.tier, focus)
    acc = Acc()
    tasks = [(chunk, ctx.pid) for chunk in common.chunked(runs, max(1, -(-len(runs) // common.NPROC)))]
    for part in common.pmap(work, tasks):
        acc += part
    acc.extra['cli_runs'] = len(runs)
    ctx.layer(name, acc)
    nsub = (8 if ctx.quick else 32) if focus == 'gate' else (4 if ctx.quick else 12)
    subset = covering_subset(runs, nsub)
    # plus every run that asks for an immediately written dump (-write-graph) and leaves warnings unwaived
    subset += [r for r in runs if r[4] == 'graph' and r[2] == 'absent' and r[3] == 'x+o' and r not in subset]
    acc = Acc()
    for part in common.pmap(bind_work, subset, fresh=True):
        acc += part
    ctx.layer(name + '-subprocess-binding', acc)


def replay(case):
    common.bind_repo()
    acc = Acc()
    base = tempfile.mkdtemp(prefix='verif_clir_')
    try:
        one_run(base, tuple(case['run']), acc)
    finally:
        shutil.rmtree(base, ignore_errors=True)
    return [(s, d) for s, d, _ in acc.violations]
