"""C07 layer 4 — placeholder, filled below."""
def run_layer(ctx):
    pass
def replay(case):
    return []
