"""
C05 — links are applied at exactly the places where they fit.

Links are generated from a feature grammar as STRUCTURED specifications; each specification is rendered to
.ff text (parsed by the real parser, applied by the real DoLinks) and, independently, interpreted by a
brute-force reference model: placements = all injective assignments of link atoms to molecule atoms that
satisfy attribute predicates, induced edges, the documented residue-order relation table, non-edges,
patterns and molecule-level conditions; the final interaction table is obtained by applying the links in
order (replace attributes, remove matching, add-or-replace keyed on (type, atoms, version), delete nodes),
with effector parameters recomputed from the matched atoms' positions.
Molecules: 3 (thorough 4) residues x (BB, SC1) on an integer lattice; residue numbering consecutive / with
a gap / descending / duplicated across chains; connectivity linear / ring / star / with a side-chain
cross-link.  Grammar: every order prefix kind (none, +, -, ++, >, >>, <, *, **) on 2- and 3-atom links;
attribute conditions (equality, choice, not()); required edge; non-edge; patterns; molecule meta;
payloads (plain, dist(), angle(), versioned, !removal, replace, node deletion); every feature alone, all
PAIRS of links as ordered lists (later overrides earlier).  Additionally `match_order` is compared cell
by cell with the documented matrix over all order pairs x residue-number differences -3..3.
"""
import itertools
import math

from mc import common
from mc.common import Acc

RULE = ("every link (and every ordered pair of links) of the grammar on every molecule of the menu; distinct = distinct "
        "(molecule, link list); non-trivial = the link has at least one placement and at least one candidate assignment "
        "that a condition rejects")
ASSUMPTIONS = ["a replace that changes an attribute the same link matches on is not generated",
               "non-edges are anchored on order-0 atoms with numeric partner orders (all the documentation shows)",
               "a removal never targets an interaction that a placement of the same link adds"]

ORDERS = [0, 1, -1, 2, '>', '>>', '<', '<<', '*', '**']


# ----------------------------------------------------------------------------- documented order relations

def order_kind(order):
    if isinstance(order, int):
        return 'n', order
    return order[0], len(order)


def ref_match_order(order1, resid1, order2, resid2):
    """The comparison matrix of the documentation (file_formats.rst / match_order docstring), written out."""
    k1, v1 = order_kind(order1)
    k2, v2 = order_kind(order2)
    if k1 == 'n' and k2 == 'n':
        return (v2 - v1) == (resid2 - resid1)
    # a non-zero number against a non-number: not considered
    if (k1 == 'n' and v1 != 0) or (k2 == 'n' and v2 != 0):
        return True
    if k1 == 'n':      # row 0
        if k2 == '>':
            return resid2 > resid1
        if k2 == '<':
            return resid2 < resid1
        return resid1 != resid2            # * and **
    if k2 == 'n':      # column 0
        if k1 == '>':
            return resid1 > resid2
        if k1 == '<':
            return resid1 < resid2
        return resid1 != resid2
    if k1 == '*' or k2 == '*':
        if k1 == '*' and k2 == '*':
            return (v1 == v2) == (resid1 == resid2)
        return True                        # * against > or <: not considered
    # both are series of > or <: signed distance from the reference; further away = more characters
    s1 = v1 if k1 == '>' else -v1
    s2 = v2 if k2 == '>' else -v2
    if s1 == s2:
        return resid1 == resid2
    return (resid2 > resid1) == (s2 > s1) and resid1 != resid2


def check_order_table(acc):
    from vermouth.processors.do_links import match_order
    for o1, o2 in itertools.product(ORDERS + [3, -2, '>>>', '<<<', '***'], repeat=2):
        for r1, r2 in itertools.product(range(0, 4), repeat=2):
            want = ref_match_order(o1, r1, o2, r2)
            try:
                got = match_order(o1, r1, o2, r2)
            except Exception as err:   # pylint: disable=broad-except
                got = 'exception %r' % (err,)
            acc.case(nontrivial=True, outcome=('ord', str(o1), str(o2), got))
            if got != want:
                acc.violation('c05:order-relation', 'match_order(%r, %d, %r, %d) = %r, the documented matrix gives %r' % (o1, r1, o2, r2, got, want),
                              {'layer': 'order-table', 'o1': o1, 'r1': r1, 'o2': o2, 'r2': r2})


# ----------------------------------------------------------------------------- link specifications

def key_of(name, order):
    if order == 0:
        return name
    if isinstance(order, int):
        return ('+' if order > 0 else '-') * abs(order) + name
    return order + name


def L(atoms, inter=(), removed=(), edges=(), non_edges=(), patterns=(), molmeta=None, attrs=None, replace=None, label='', secmeta=None):
    """atoms: list of (name, order[, attr dict])."""
    return {'atoms': [(a[0], a[1], (a[2] if len(a) > 2 else {})) for a in atoms], 'inter': list(inter), 'removed': list(removed),
            'edges': list(edges), 'non_edges': list(non_edges), 'patterns': list(patterns), 'molmeta': molmeta or {},
            'attrs': attrs or {}, 'replace': replace or {}, 'label': label, 'secmeta': secmeta or {}}


def grammar():
    links = []
    bond = lambda i, j, p='0.35', meta=None: ('bonds', (i, j), ['1', p, '1250'], meta or {})
    # order prefixes on a 2-atom link (indices into the atom list)
    for order in ORDERS[1:]:
        links.append(L([('BB', 0), ('BB', order)], inter=[bond(0, 1)], label='bond BB %sBB' % key_of('', order)))
    links.append(L([('BB', 0), ('SC1', 0)], inter=[bond(0, 1, '0.2')], label='bond BB SC1 (same residue)'))
    # 3-atom links
    for o1, o2 in ((-1, 1), (1, 2), ('<', '>'), ('*', '**'), ('>', '>>'), ('<<', '<')):
        links.append(L([('BB', o1), ('BB', 0), ('BB', o2)], inter=[('angles', (0, 1, 2), ['2', '127', '20'], {})],
                       label='angle %sBB BB %sBB' % (key_of('', o1), key_of('', o2))))
    links.append(L([('SC1', 0), ('BB', 0), ('BB', 1)], inter=[('angles', (0, 1, 2), ['2', '100', '25'], {})], label='angle SC1 BB +BB'))
    links.append(L([('SC1', 0), ('BB', 0), ('BB', 1), ('SC1', 1)], inter=[('dihedrals', (0, 1, 2, 3), ['1', '0', '5', '2'], {})],
                   label='dihedral SC1 BB +BB +SC1'))
    # attribute conditions
    links.append(L([('BB', 0, {'resname': 'ALA'}), ('BB', 1)], inter=[bond(0, 1)], label='equality on first atom'))
    links.append(L([('BB', 0), ('BB', 1, {'resname': ['choice', 'ALA', 'GLY']})], inter=[bond(0, 1)], label='choice on second atom'))
    links.append(L([('BB', 0), ('BB', 1)], inter=[bond(0, 1)], attrs={'resname': ['not', 'GLY']}, label='link-level not()'))
    links.append(L([('BB', 0), ('BB', 1)], inter=[bond(0, 1)], attrs={'chain': 'A'}, label='link-level equality'))
    # required edge that no interaction implies / atoms that must NOT be bonded (induced matching)
    links.append(L([('SC1', 0), ('SC1', '*')], inter=[('pairs', (0, 1), ['1'], {})], edges=[(0, 1)], label='edge SC1 *SC1 required'))
    links.append(L([('SC1', 0), ('SC1', '*')], inter=[('pairs', (0, 1), ['1'], {})], label='SC1 *SC1 must not be bonded'))
    links.append(L([('BB', 0), ('BB', '*')], inter=[('pairs', (0, 1), ['1', '0.1'], {})], label='BB *BB not bonded'))
    # non-edges
    links.append(L([('BB', 0), ('BB', 1)], inter=[bond(0, 1)], non_edges=[(0, 'SC1', 0)], label='non-edge BB SC1'))
    links.append(L([('BB', 0), ('BB', 1)], inter=[bond(0, 1)], non_edges=[(0, 'BB', -1)], label='non-edge BB -BB'))
    links.append(L([('BB', 0), ('BB', 1)], inter=[bond(0, 1)], non_edges=[(0, 'SC1', 0), (0, 'BB', -1)], label='two non-edges'))
    links.append(L([('BB', 0), ('BB', -1)], inter=[bond(0, 1)], non_edges=[(0, 'BB', 1)], label='non-edge BB +BB'))
    links.append(L([('BB', 0), ('BB', 1)], inter=[bond(0, 1)], non_edges=[(0, 'BB', -1), (0, 'SC1', 0)], label='two non-edges, other order'))
    links.append(L([('BB', 0), ('BB', 1)], inter=[bond(0, 1)], non_edges=[(0, 'SC1', 1), (0, 'BB', -1)], label='two non-edges, first never applies'))
    links.append(L([('BB', 0), ('BB', 1)], inter=[bond(0, 1)], non_edges=[(0, 'BB', 2), (0, 'BB', -1), (0, 'SC1', 3)], label='three non-edges'))
    # the partner of a non-edge re-specifies an attribute the link header sets for all atoms
    links.append(L([('BB', 0), ('BB', 1)], inter=[bond(0, 1)], attrs={'resname': ['choice', 'ALA', 'GLY', 'LYS']},
                   non_edges=[(0, 'BB', -1, {'resname': 'GLY'})], label='non-edge partner overrides header attribute (GLY)'))
    links.append(L([('BB', 0), ('BB', 1)], inter=[bond(0, 1)], attrs={'resname': ['not', 'LYS']},
                   non_edges=[(0, 'BB', -1, {'resname': 'ALA'})], label='non-edge partner overrides header attribute (ALA)'))
    # patterns
    links.append(L([('BB', 0), ('BB', 1)], inter=[bond(0, 1)], patterns=[[(0, {'resname': 'ALA'}), (1, {})]], label='one pattern'))
    links.append(L([('BB', 0), ('BB', 1)], inter=[bond(0, 1)],
                   patterns=[[(0, {'resname': 'GLY'}), (1, {'resname': 'GLY'})], [(0, {}), (1, {'resname': 'ALA'})]], label='two patterns'))
    # molecule meta
    links.append(L([('BB', 0), ('BB', 1)], inter=[bond(0, 1)], molmeta={'flag': True}, label='molmeta satisfied'))
    links.append(L([('BB', 0), ('BB', 1)], inter=[bond(0, 1)], molmeta={'flag': False}, label='molmeta not satisfied (never fits)'))
    links.append(L([('BB', 0), ('BB', 1)], inter=[bond(0, 1)], molmeta={'other': 1}, label='molmeta absent (never fits)'))
    # payloads
    links.append(L([('BB', 0), ('BB', 1)], inter=[('bonds', (0, 1), ['1', ['dist', 0, 1], '1250'], {})], label='dist() parameter'))
    links.append(L([('BB', -1), ('BB', 0), ('BB', 1)], inter=[('angles', (0, 1, 2), ['2', ['angle', 0, 1, 2], '20'], {})], label='angle() parameter'))
    links.append(L([('BB', 0), ('BB', 1)], inter=[bond(0, 1, '0.4', {'version': 2})], label='versioned bond'))
    links.append(L([('BB', 0), ('BB', 1)], inter=[bond(0, 1, '0.5')], label='plain bond, other length'))
    links.append(L([('BB', 0), ('SC1', 0)], removed=[('bonds', (0, 1), [])], label='!bonds BB SC1'))
    links.append(L([('BB', 0), ('SC1', 0)], removed=[('bonds', (0, 1), ['1', '0.99'])], label='!bonds with non-matching parameters'))
    links.append(L([('BB', 0), ('BB', 1)], removed=[('bonds', (0, 1), [])], label='!bonds BB +BB (atoms not bonded)'))
    links.append(L([('BB', 0), ('BB', 1)], removed=[('bonds', (0, 1), [])], edges=[(0, 1)], label='!bonds BB +BB'))
    links.append(L([('BB', 0), ('BB', 1)], inter=[bond(0, 1)], replace={0: {'charge': 1}}, label='replace attribute'))
    # interaction metadata: conditional / grouped bond, and removals that name a version
    links.append(L([('BB', 0), ('BB', 1)], inter=[bond(0, 1, '0.36', {'ifdef': 'FLEXIBLE', 'group': 'Backbone bonds'})], label='bond under ifdef + group'))
    links.append(L([('BB', 0), ('BB', 1)], inter=[bond(0, 1, '0.37', {'comment': 'stiff'})], label='bond with comment'))
    # a #meta default for the section and a line that sets the same key differently: the line wins
    links.append(L([('BB', 0), ('BB', 1), ('BB', 2)], inter=[bond(0, 1, '0.31', {'edge': True}), bond(0, 2, '0.62')],
                   edges=[(1, 2)], secmeta={'bonds': {'edge': False, 'group': 'long range'}}, label='#meta edge false, one line edge true'))
    links.append(L([('BB', 0), ('BB', 1)], inter=[bond(0, 1, '0.32', {'group': 'own group', 'version': 1})],
                   secmeta={'bonds': {'group': 'section group', 'version': 2}}, label='#meta group/version overridden on the line'))
    links.append(L([('BB', 0), ('BB', 1)], removed=[('bonds', (0, 1), [], {'version': 2})], edges=[(0, 1)], label='!bonds version 2 only'))
    links.append(L([('BB', 0), ('BB', 1)], removed=[('bonds', (0, 1), [], {'ifdef': 'FLEXIBLE'})], edges=[(0, 1)], label='!bonds under ifdef only'))
    links.append(L([('BB', 0), ('SC1', 0, {'resname': 'GLY'})], replace={1: {'atomname': None}}, edges=[(0, 1)], label='delete SC1 of GLY'))
    # the same without the edge: BB and SC1 of ONE residue are always bonded, so this link has no induced placement at all
    links.append(L([('BB', 0), ('SC1', 0, {'resname': 'GLY'})], replace={1: {'atomname': None}}, label='delete SC1 of GLY (no edge written: never fits)'))
    return links


def render(link):
    lines = ['[ link ]']
    for key, value in link['attrs'].items():
        lines.append('%s %s' % (key, render_value(value)))
    keys = [key_of(name, order) for name, order, _ in link['atoms']]
    atom_lines = []
    for idx, (name, order, attrs) in enumerate(link['atoms']):
        full = dict(attrs)
        if idx in link['replace']:
            full['replace'] = link['replace'][idx]
        atom_lines.append('%s %s' % (keys[idx], render_attrs(full)))
    lines.append('[ atoms ]')
    lines.extend(atom_lines)
    for section, items, prefix in (('', link['inter'], ''), ('!', link['removed'], '!')):
        by_type = {}
        for item in items:
            by_type.setdefault(item[0], []).append(item)
        for typ, lst in by_type.items():
            lines.append('[ %s%s ]' % (prefix, typ))
            if not prefix and typ in link.get('secmeta', {}):
                lines.append('#meta %s' % json_dumps(link['secmeta'][typ]))
            for item in lst:
                atoms = ' '.join(keys[i] for i in item[1])
                params = ' '.join(render_param(p, keys) for p in item[2])
                meta = (' ' + json_dumps(item[3])) if len(item) > 3 and item[3] else ''
                lines.append('%s -- %s%s' % (atoms, params, meta) if (params or meta) else atoms)
    if link['edges']:
        lines.append('[ edges ]')
        lines.extend('%s %s' % (keys[a], keys[b]) for a, b in link['edges'])
    if link['non_edges']:
        lines.append('[ non-edges ]')
        for item in link['non_edges']:
            a, name, order = item[:3]
            pattrs = item[3] if len(item) > 3 else {}
            lines.append('%s %s%s' % (keys[a], key_of(name, order), (' ' + render_attrs(pattrs)) if pattrs else ''))
    if link['patterns']:
        lines.append('[ patterns ]')
        for pattern in link['patterns']:
            lines.append(' '.join('%s %s' % (keys[i], render_attrs(attrs)) if attrs else keys[i] for i, attrs in pattern))
    if link['molmeta']:
        lines.append('[ molmeta ]')
        lines.extend('%s %s' % (k, json_dumps(v)) for k, v in link['molmeta'].items())
    return lines


def json_dumps(value):
    import json
    return json.dumps(value)


def render_value(value):
    if isinstance(value, list) and value[0] == 'choice':
        return json_dumps('|'.join(value[1:]))
    if isinstance(value, list) and value[0] == 'not':
        return 'not(%s)' % json_dumps(value[1])
    return json_dumps(value)


def render_attrs(attrs):
    out = {}
    for key, value in attrs.items():
        if isinstance(value, list) and value[0] == 'choice':
            out[key] = '|'.join(value[1:])
        else:
            out[key] = value
    return json_dumps(out)


def render_param(param, keys):
    if isinstance(param, list):
        return '%s(%s)' % (param[0], ','.join(keys[i] for i in param[1:]))
    return str(param)


# ----------------------------------------------------------------------------- molecules

RESIDS = {'consecutive': [1, 2, 3, 4], 'gap': [1, 2, 4, 5], 'descending': [9, 8, 7, 6], 'duplicated': [1, 2, 1, 2],
          'names-rotated': [1, 2, 3, 4],      # same numbers as 'consecutive', residue names shifted by one (GLY ALA LYS ALA)
          'stretched': [1, 2, 3, 4]}          # same numbers, names and node keys as 'consecutive', other coordinates
RESNAMES = ['ALA', 'GLY', 'ALA', 'LYS']


def build_molecule(nres, numbering, connectivity, ff):
    import numpy as np
    import vermouth
    mol = vermouth.molecule.Molecule(force_field=ff)
    mol.meta['flag'] = True
    atoms = {}
    key = 0
    for res in range(nres):
        chain = 'A' if (numbering != 'duplicated' or res < 2) else 'B'
        for name, offset in (('BB', (0, 0, 0)), ('SC1', (0, 1, 0))):
            if name == 'SC1' and ((connectivity == 'linear-gly-bare' and res == 1) or (connectivity == 'linear-first-bare' and res == 0)):
                continue        # a residue without side chain: the only place where "BB not bonded to SC1" holds
            pos = np.array([2.0 * res + (res % 2) + offset[0], offset[1] + (res // 2), offset[2] + 0.5 * res], dtype=float)
            if numbering == 'stretched':
                pos = pos * 1.5 + np.array([0.0, 0.25 * res, 0.125 * key])
            mol.add_node(key, atomname=name, resname=RESNAMES[(res + 1) % 4] if numbering == 'names-rotated' else RESNAMES[res], resid=RESIDS[numbering][res], chain=chain, position=pos, charge=0)
            atoms[(res, name)] = key
            key += 1
        if (res, 'SC1') in atoms:
            mol.add_edge(atoms[(res, 'BB')], atoms[(res, 'SC1')])
            mol.add_interaction('bonds', (atoms[(res, 'BB')], atoms[(res, 'SC1')]), ['1', '0.3', '5000'])
    backbone = []
    if connectivity in ('linear', 'ring', 'crosslink', 'linear-gly-bare', 'linear-first-bare'):
        backbone = [(r, r + 1) for r in range(nres - 1)]
    if connectivity == 'ring':
        backbone.append((nres - 1, 0))
    if connectivity == 'star':
        backbone = [(0, r) for r in range(1, nres)]
    for a, b in backbone:
        mol.add_edge(atoms[(a, 'BB')], atoms[(b, 'BB')])
    if connectivity == 'crosslink':
        mol.add_edge(atoms[(0, 'SC1')], atoms[(nres - 1, 'SC1')])
    # a pre-existing inter-residue bond that links may override or remove
    mol.add_interaction('bonds', (atoms[(0, 'BB')], atoms[(1, 'BB')]), ['1', '0.33', '999'])
    return mol


# ----------------------------------------------------------------------------- reference model

def attr_ok(node, key, want):
    if isinstance(want, list) and want[0] == 'choice':
        return node.get(key) in want[1:]
    if isinstance(want, list) and want[0] == 'not':
        return key not in node or node[key] != want[1]
    return node.get(key) == want


def effective_meta(link, typ, meta):
    """What is written on the interaction line itself wins over the #meta default of its section."""
    out = dict(link.get('secmeta', {}).get(typ, {}))
    out.update(meta)
    return out


def link_edges(link):
    edges = {frozenset(e) for e in link['edges']}
    for typ, atoms, _, meta in link['inter']:
        meta = effective_meta(link, typ, meta)
        if typ in ('bonds', 'angles', 'dihedrals', 'constraints', 'cmap') and meta.get('edge', True):
            for a, b in zip(atoms[:-1], atoms[1:]):
                edges.add(frozenset((a, b)))
    return edges


def placements(state, link):
    """state: dict(nodes {key: attrs}, edges set(frozenset), meta)."""
    for key, value in link['molmeta'].items():
        if not attr_ok(state['meta'], key, value):
            return []
    natoms = len(link['atoms'])
    ledges = link_edges(link)
    nodes = state['nodes']
    cands = []
    for name, order, attrs in link['atoms']:
        full = dict(link['attrs'])
        full.update(attrs)
        full['atomname'] = name
        cands.append([k for k, node in nodes.items() if all(attr_ok(node, a, v) for a, v in full.items())])
    out = []
    for combo in itertools.product(*cands):
        if len(set(combo)) != natoms:
            continue
        ok = True
        for i, j in itertools.combinations(range(natoms), 2):
            if (frozenset((i, j)) in ledges) != (frozenset((combo[i], combo[j])) in state['edges']):
                ok = False
                break
        if not ok:
            continue
        # residue-order relations
        by_order = {}
        for idx, (name, order, _) in enumerate(link['atoms']):
            resid = nodes[combo[idx]]['resid']
            if by_order.setdefault(order, resid) != resid:
                ok = False
                break
        if not ok:
            continue
        for (o1, r1), (o2, r2) in itertools.combinations(by_order.items(), 2):
            if not ref_match_order(o1, r1, o2, r2):
                ok = False
                break
        if not ok:
            continue
        # non-edges
        for item in link['non_edges']:
            anchor, pname, porder = item[:3]
            a_key = combo[anchor]
            want = dict(link['attrs'])
            want.update(item[3] if len(item) > 3 else {})       # what is written on the non-edge line itself wins over the link header
            want['atomname'] = pname
            for e in state['edges']:
                if a_key in e:
                    (other,) = e - {a_key}
                    if nodes[other]['resid'] == nodes[a_key]['resid'] + porder and all(attr_ok(nodes[other], k, v) for k, v in want.items()):
                        ok = False
        if not ok:
            continue
        if link['patterns']:
            if not any(all(all(attr_ok(nodes[combo[i]], k, v) for k, v in attrs.items()) for i, attrs in pattern)
                       for pattern in link['patterns']):
                continue
        out.append(combo)
    return out


def ref_param(param, combo, nodes):
    if isinstance(param, list):
        pts = [nodes[combo[i]]['position'] for i in param[1:]]
        if param[0] == 'dist':
            return math.sqrt(sum((a - b) ** 2 for a, b in zip(pts[0], pts[1])))
        ba = [a - b for a, b in zip(pts[0], pts[1])]
        bc = [a - b for a, b in zip(pts[2], pts[1])]
        cosang = sum(x * y for x, y in zip(ba, bc)) / math.sqrt(sum(x * x for x in ba) * sum(y * y for y in bc))
        return math.degrees(math.acos(max(-1.0, min(1.0, cosang))))
    return param


def apply_links(state, links):
    """Mutates and returns state; state['inter'] = list of [type, atoms tuple, params list, version]."""
    for link in links:
        to_delete = []
        for combo in placements(state, link):
            for idx, repl in link['replace'].items():
                if repl.get('atomname', False) is None:
                    to_delete.append(combo[idx])
                else:
                    state['nodes'][combo[idx]].update(repl)
            for removal in link['removed']:
                typ, atoms, params = removal[:3]
                want_meta = removal[3] if len(removal) > 3 else {}
                target = tuple(combo[i] for i in atoms)
                for pos, item in enumerate(state['inter']):
                    if item[0] == typ and item[1] == target and (not params or [str(p) for p in item[2]] == [str(p) for p in params]) \
                            and all(item[4].get(k) == v for k, v in want_meta.items()):
                        del state['inter'][pos]
                        break
            for typ, atoms, params, meta in link['inter']:
                meta = effective_meta(link, typ, meta)
                target = tuple(combo[i] for i in atoms)
                values = [ref_param(p, combo, state['nodes']) for p in params]
                version = meta.get('version', 0)
                for item in state['inter']:
                    if item[0] == typ and item[1] == target and item[3] == version:
                        item[2] = values
                        item[4] = dict(meta)      # the later link states the whole interaction, metadata included
                        break
                else:
                    state['inter'].append([typ, target, values, version, dict(meta)])
        for key in to_delete:
            if key in state['nodes']:
                del state['nodes'][key]
                state['edges'] = {e for e in state['edges'] if key not in e}
                state['inter'] = [i for i in state['inter'] if key not in i[1]]
    return state


def state_of(mol):
    return {
        'nodes': {k: {a: (tuple(float(x) for x in v) if a == 'position' else v) for a, v in d.items()} for k, d in mol.nodes(data=True)},
        'edges': {frozenset(e) for e in mol.edges},
        'meta': dict(mol.meta),
        'inter': [[t, tuple(i.atoms), list(i.parameters), i.meta.get('version', 0), dict(i.meta)] for t, lst in mol.interactions.items() for i in lst],
    }


def norm_inter(items):
    out = []
    for typ, atoms, params, version, meta in items:
        vals = []
        for p in params:
            try:
                vals.append(round(float(p), 6))
            except (TypeError, ValueError):
                vals.append(str(p))
        out.append((typ, tuple(atoms), tuple(vals), version, tuple(sorted((str(k), str(v)) for k, v in meta.items()))))
    return sorted(out, key=repr)


def check(nres, numbering, connectivity, link_idxs, acc, sample=False, world=None):
    from vermouth.forcefield import ForceField
    from vermouth.ffinput import read_ff
    from vermouth.processors.do_links import DoLinks
    links = [GRAMMAR[i] for i in link_idxs]
    case = {'layer': 'links', 'nres': nres, 'numbering': numbering, 'connectivity': connectivity, 'links': list(link_idxs),
            'labels': [l['label'] for l in links]}
    text = []
    for link in links:
        text.extend(render(link))
    if world is not None and 'ff' in world:
        ff = world['ff']            # ONE force field object (and one DoLinks instance) over several molecules
    else:
        ff = ForceField(name='c05ff')
        try:
            read_ff(text, ff)
        except Exception as err:   # pylint: disable=broad-except
            raise common.HarnessError('generated link does not parse: %r\n%s' % (err, '\n'.join(text)))
        if world is not None:
            world['ff'] = ff
            world['processor'] = DoLinks()
    if len(ff.links) != len(links):
        raise common.HarnessError('parsed %d links from %d specifications' % (len(ff.links), len(links)))
    mol = build_molecule(nres, numbering, connectivity, ff)
    expected = state_of(mol)
    n_place = [len(placements(expected, link)) for link in links]
    for i, n in zip(link_idxs, n_place):
        acc.extra['placements_of_link_%d' % i] += n      # vacuity guard: every link of the grammar must fit somewhere
    expected = apply_links(expected, links)
    try:
        with common.LogCapture():
            (world['processor'] if world is not None else DoLinks()).run_molecule(mol)
    except Exception as err:   # pylint: disable=broad-except
        acc.case(outcome='exc')
        acc.violation('c05:exception', 'DoLinks raised %r for links %r' % (err, case['labels']), dict(case, ff_text=text))
        return
    got = state_of(mol)
    problems = []
    if sorted(got['nodes']) != sorted(expected['nodes']):
        problems.append(('c05:node-removal', 'atoms after the links %r, expected %r' % (sorted(got['nodes']), sorted(expected['nodes']))))
    else:
        gi, ei = norm_inter(got['inter']), norm_inter(expected['inter'])
        if gi != ei:
            extra = [i for i in gi if i not in ei]
            missing = [i for i in ei if i not in gi]
            if extra and not missing:
                sig = 'c05:unjustified-interaction'
            elif missing and not extra:
                sig = 'c05:missing-interaction'
            elif {(i[0], i[1], i[2], i[3]) for i in extra} == {(i[0], i[1], i[2], i[3]) for i in missing}:
                sig = 'c05:wrong-metadata'
            elif {(i[0], i[1], i[3]) for i in extra} == {(i[0], i[1], i[3]) for i in missing}:
                sig = 'c05:wrong-parameters'
            else:
                sig = 'c05:interactions-differ'
            problems.append((sig, 'links %r on %s/%s: interactions not justified by any placement %r; placements without their interaction %r' % (
                case['labels'], numbering, connectivity, extra[:4], missing[:4])))
        else:
            for key, node in expected['nodes'].items():
                if {a: v for a, v in got['nodes'][key].items() if a != 'position'} != {a: v for a, v in node.items() if a != 'position'}:
                    problems.append(('c05:attributes', 'atom %r has attributes %r, expected %r' % (key, got['nodes'][key], node)))
                    break
    acc.case(nontrivial=any(n_place), outcome=(tuple(n_place), len(got['inter'])),
             sample=dict(case, ff_text=text, placements=n_place) if sample else None)
    for sig, desc in problems[:1]:
        acc.violation(sig, desc, dict(case, ff_text=text))


GRAMMAR = grammar()
MOLECULES = [(3, num, con) for num in ('consecutive', 'gap', 'descending', 'duplicated') for con in ('linear', 'ring', 'crosslink')] + \
            [(4, num, con) for num in ('consecutive', 'gap', 'descending', 'duplicated') for con in ('linear', 'star', 'ring', 'crosslink')] + \
            [(3, 'consecutive', 'linear-gly-bare'), (4, 'gap', 'linear-gly-bare'), (3, 'consecutive', 'linear-first-bare')]
TRIPLE_MOLECULES = [(3, 'consecutive', 'linear'), (4, 'gap', 'star'), (3, 'duplicated', 'ring')]


def sequence_case(item, acc):
    """The links of one force-field object applied, by one DoLinks instance, to several molecules one after another (what
    run_system does); every molecule is judged on its own."""
    link_idxs, mols = item
    world = {}
    before = len(acc.violations)
    for nres, numbering, connectivity in mols:
        check(nres, numbering, connectivity, link_idxs, acc, world=world)
    for idx in range(before, len(acc.violations)):
        sig, desc, case = acc.violations[idx]
        acc.violations[idx] = (sig + '(molecule-sequence)', 'one force field / one DoLinks over the molecules %r: %s' % (list(mols), desc),
                               {'layer': 'sequence', 'links': list(link_idxs), 'molecules': [list(m) for m in mols]})


def work(task):
    common.bind_repo()
    acc = Acc()
    if isinstance(task, tuple) and task and task[0] == 'sequence':
        for item in task[1]:
            sequence_case(item, acc)
        return acc
    if task == 'order-table':
        check_order_table(acc)
        return acc
    for item in task:
        check(*item, acc, sample=(acc.states % 2003 == 0))
    return acc


def run(ctx):
    ctx.bound = {'links_in_grammar': len(GRAMMAR), 'molecules': len(MOLECULES), 'link_list_length': 2}
    acc = Acc()
    for part in common.pmap(work, ['order-table']):
        acc += part
    ctx.layer('order-table', acc)
    items = []
    mols = MOLECULES if not ctx.quick else [m for m in MOLECULES if m[0] == 3 or m[2] in ('star', 'linear')]
    for nres, numbering, connectivity in mols:
        for i in range(len(GRAMMAR)):
            items.append((nres, numbering, connectivity, (i,)))
        pair_mols = ctx.tier != 'quick' or numbering in ('consecutive', 'gap', 'duplicated')
        if pair_mols:
            for i, j in itertools.product(range(len(GRAMMAR)), repeat=2):
                items.append((nres, numbering, connectivity, (i, j)))
    if not ctx.quick:
        # thorough only: every ordered triple of links of the grammar, on three molecules of different shape and numbering
        ctx.bound['link_list_length'] = 3
        ctx.bound['triple_molecules'] = [list(m) for m in TRIPLE_MOLECULES]
        for nres, numbering, connectivity in TRIPLE_MOLECULES:
            for trip in itertools.product(range(len(GRAMMAR)), repeat=3):
                items.append((nres, numbering, connectivity, trip))
    acc = Acc()
    for part in common.pmap(work, list(common.chunked(items, max(1, len(items) // 256)))):
        acc += part
    idle = [GRAMMAR[i]['label'] for i in range(len(GRAMMAR)) if acc.extra.get('placements_of_link_%d' % i, 0) == 0
            and 'never fits' not in GRAMMAR[i]['label']]
    if idle:
        raise common.HarnessError('links of the grammar that fit nowhere in any molecule (vacuous entries): %r' % (idle,))
    ctx.layer('links', acc)
    pool = [m for m in MOLECULES if m[0] == 3][:4] + [m for m in MOLECULES if m[0] != 3][:2] + [(3, 'names-rotated', 'linear'), (4, 'names-rotated', 'star')] + \
        [(3, 'stretched', 'linear'), (4, 'stretched', 'star')]     # the same node keys as an earlier molecule at other coordinates
    seqs = []
    for i in range(len(GRAMMAR)):
        for a, b in itertools.permutations(pool, 2):
            seqs.append(((i,), (a, b)))
    if not ctx.quick:
        for i, j in itertools.product(range(len(GRAMMAR)), repeat=2):
            seqs.append(((i, j), (pool[0], pool[-1], pool[1])))
    acc = Acc()
    for part in common.pmap(work, [('sequence', chunk) for chunk in common.chunked(seqs, max(1, len(seqs) // 64))]):
        acc += part
    ctx.layer('molecule-sequences', acc)


def replay(case):
    common.bind_repo()
    acc = Acc()
    if case.get('layer') == 'sequence':
        sequence_case((tuple(case['links']), [tuple(m) for m in case['molecules']]), acc)
    elif case.get('layer') == 'order-table':
        check_order_table(acc)
    else:
        check(case['nres'], case['numbering'], case['connectivity'], tuple(case['links']), acc)
    return [(s, d) for s, d, _ in acc.violations]
