"""
C19 through bin/martinize2: -mutate, -nter, -cter, -nt as the program parses and wires them, on 1-3 chains cut from
ala5.pdb.  Observed in the written ITPs (own reader): the residue names of every residue (a mutated ALA comes out as GLY and
has no side-chain particle) and the charge of the first and last backbone particle of every chain (N-ter +1, C-ter -1,
NH2-ter / COOH-ter / none 0).  Which residues a specification names is decided by the reference semantics of the statement
(c19.ref_parse / c19.ref_matches) on the residues of the input.
"""
import itertools
import os
import shutil
import tempfile

from mc import common, cli, readers
from mc.common import Acc
from props import cli_topology

MUTATIONS = [[], ['A-ALA2'], ['ALA3'], ['B-ALA'], ['#1'], ['A-#2', 'ALA3'], ['B-ALA4'], ['nter'], ['A-cter']]
TERMINI = {'default': ([], 1, -1), 'nt': (['-nt'], 0, 0), 'nter-NH2': (['-nter', 'NH2-ter'], 0, -1),
           'cter-COOH': (['-cter', 'COOH-ter'], 1, 0), 'nter-none': (['-nter', 'none'], 0, -1)}


def cli_case(item, acc):
    from props import c19
    chains, mutations, termini = item
    case = {'layer': 'cli', 'chains': list(chains), 'mutations': list(mutations), 'termini': termini}
    chain_ids = 'ABC'[:len(chains)]
    text, numbers = cli_topology.cli_input(chains, chain_ids, (0,) * len(chains))
    term_args, n_charge, c_charge = TERMINI[termini]
    argv = ['-f', 'in.pdb', '-x', 'cg.pdb', '-o', 'topol.top', '-maxwarn', '100', '-sep'] + term_args
    for spec in mutations:
        argv += ['-mutate', '%s:GLY' % spec]
    # reference: which residues does each specification name
    residues = []
    for cidx, nums in enumerate(numbers):
        for pos, resid in enumerate(nums):
            nbrs = []
            if pos > 0:
                nbrs.append(nums[pos - 1])
            if pos < len(nums) - 1:
                nbrs.append(nums[pos + 1])
            residues.append({'mol': cidx, 'chain': chain_ids[cidx], 'resname': 'ALA', 'resid': resid, 'icode': '', 'degree': len(nbrs), 'nbrs': nbrs,
                             'keys': []})
    expected = {}
    for res in residues:
        hit = False
        for spec in mutations:
            parsed = c19.ref_parse(spec)
            if c19.ref_matches(parsed, res, res['degree'], res['nbrs']):
                hit = True
        expected[(res['mol'], res['resid'])] = 'GLY' if hit else 'ALA'
    base = tempfile.mkdtemp(prefix='verif_c19cli_', dir='/dev/shm' if os.path.isdir('/dev/shm') else None)
    try:
        with open(os.path.join(base, 'in.pdb'), 'w') as handle:
            handle.write(text)
        res = cli.run_inprocess(argv, base)
        if res['exit'] != 0:
            acc.case(outcome=('cli-exit', res['exit']))
            acc.violation('c19:cli-run-failed', 'martinize2 %r exits %r\n%s' % (argv[8:], res['exit'], res['stderr'][-400:]), case)
            return
        top = readers.read_top(open(os.path.join(base, 'topol.top')).read())
        names = [n for n, count in top['molecules'] for _ in range(count)]
        itps = {n: readers.read_itp(open(os.path.join(base, n + '.itp')).read()) for n in set(names)}
    finally:
        shutil.rmtree(base, ignore_errors=True)
    problems = []
    if len(names) != len(chains):
        problems.append(('c19:cli-molecules', '%d molecules for %d chains (-sep)' % (len(names), len(chains))))
    else:
        for cidx, mname in enumerate(names):
            atoms = itps[mname]['atoms']
            got = {}
            for atom in atoms:
                got.setdefault(int(atom['resid']), []).append((atom['resname'], atom['atomname'], atom['charge']))
            order = sorted(got)
            want_names = [expected[(cidx, resid)] for resid in numbers[cidx]]
            have_names = [got[r][0][0] for r in order]
            if have_names != want_names:
                problems.append(('c19:cli-wrong-residues-mutated', 'chain %s: residues come out as %r; the requests %r name %r' % (
                    chain_ids[cidx], have_names, list(mutations), want_names)))
                break
            for r, name in zip(order, want_names):
                beads = [b for _, b, _ in got[r]]
                if (name == 'GLY') != ('SC1' not in beads):
                    problems.append(('c19:cli-mutated-residue-atoms', 'chain %s residue %d is %s but has the particles %r' % (chain_ids[cidx], r, name, beads)))
                    break
            if problems:
                break
            first_bb = [float(c) for _, b, c in got[order[0]] if b == 'BB'][0]
            last_bb = [float(c) for _, b, c in got[order[-1]] if b == 'BB'][0]
            want_first, want_last = (n_charge, c_charge)
            if len(order) == 1:
                continue
            if (first_bb, last_bb) != (float(want_first), float(want_last)):
                problems.append(('c19:cli-termini', 'chain %s with %s: first / last backbone charge %r / %r, requested termini give %r / %r' % (
                    chain_ids[cidx], termini, first_bb, last_bb, want_first, want_last)))
                break
    acc.case(nontrivial=bool(mutations) or termini != 'default', outcome=('cli', tuple(chains), tuple(mutations), termini, len(problems)))
    for sig, desc in problems[:1]:
        acc.violation(sig, desc, case)


def items(tier):
    chain_sets = [('P',), ('P', 'S'), ('S', 'Q', 'P')] if tier == 'quick' else [c for m in (1, 2, 3) for c in itertools.product('PSQ', repeat=m)]
    for chains in chain_sets:
        for mutations in MUTATIONS:
            for termini in TERMINI:
                if tier == 'quick' and mutations and termini not in ('default', 'nt'):
                    continue
                yield chains, tuple(mutations), termini


def work(task):
    common.bind_repo()
    acc = Acc()
    for item in task:
        cli_case(item, acc)
    return acc


def run_layer(ctx):
    todo = list(items(ctx.tier))
    acc = Acc()
    for part in common.pmap(work, list(common.chunked(todo, 2))):
        acc += part
    ctx.layer('martinize2-requests', acc)


def replay(case):
    common.bind_repo()
    acc = Acc()
    cli_case((tuple(case['chains']), tuple(case['mutations']), case['termini']), acc)
    return [(s, d) for s, d, _ in acc.violations]
