"""
C14 — every unrecognised atom is explained by a known modification or reported.

Enumerated: a toy force field with a 4-atom residue block and a family of modifications (single added atom;
two added atoms; one a sub-pattern of another, twice; two on different anchors of one residue; one spanning two
residues; one with a `replace`); molecules of 1-2 (thorough 3) residues with EVERY placement of <= 2 (3)
unexplained atoms: element from the modifications' elements plus a foreign one, attached to every atom of every
residue, chained onto a previous unexplained atom, or bridging two residues; every subset of the modification
family as the force field's modification set (thorough; quick: the full family and three subsets).
Oracle: brute-force enumeration of all exact covers by induced placements (anchors by name, added atoms by
element).  If a cover exists the real result must BE one of them (names of the unexplained atoms, labels on all
atoms of the touched residues, replacements applied); if none exists the atoms must be removed and an
unknown-input warning logged.  No unexplained atom may survive unlabelled.
"""
import itertools

from mc import common
from mc.common import Acc

RULE = ("every placement of <= k unexplained atoms on 1..n residues x modification sets; distinct = distinct (molecule, "
        "modification set); non-trivial = at least one unexplained atom and at least two candidate placements or no cover")
ASSUMPTIONS = ["ring-closing unexplained atoms (bonded to an earlier unexplained atom and to a residue atom) are included so that "
               "non-induced placements occur",
               "molecules are given in the state RepairGraph leaves them in (canonical names, PTM_atom flags, elements, resids)",
               "which exact cover is chosen is not prescribed: any valid one is accepted",
               "modifications without any added atom are not generated (they cannot be recognised from structure)"]

BLOCK_ATOMS = ['N', 'CA', 'C', 'O']
BLOCK_EDGES = [('N', 'CA'), ('CA', 'C'), ('C', 'O')]

# name -> (nodes [(key, atomname, PTM_atom, element, replace)], edges)
MODS = {
    'ADD-H': ([('N', 'N', False, 'N', None), ('h', 'HX', True, 'H', None)], [('N', 'h')]),
    'ADD-HH': ([('N', 'N', False, 'N', None), ('h1', 'H1', True, 'H', None), ('h2', 'H2', True, 'H', None)], [('N', 'h1'), ('N', 'h2')]),
    'C-OX': ([('C', 'C', False, 'C', {'charge': -1}), ('o', 'OX', True, 'O', None)], [('C', 'o')]),
    'COOH': ([('C', 'C', False, 'C', None), ('o', 'OX', True, 'O', None), ('h', 'HO', True, 'H', None)], [('C', 'o'), ('o', 'h')]),
    'CA-S': ([('CA', 'CA', False, 'C', None), ('s', 'SG', True, 'S', None)], [('CA', 's')]),
    'BRIDGE': ([('a', 'CA', False, 'C', None), ('b', 'CA', False, 'C', None), ('s', 'SB', True, 'S', None)], [('a', 's'), ('b', 's')]),
}
ELEMENTS = ['H', 'O', 'S', 'P']


def force_field(mod_names):
    from vermouth.forcefield import ForceField
    from vermouth.molecule import Block, Modification
    ff = ForceField(name='c14ff')
    block = Block(force_field=ff)
    block.name = 'RA'
    for atom in BLOCK_ATOMS:
        block.add_atom({'atomname': atom, 'resname': 'RA', 'resid': 1, 'element': atom[0]})
    block.add_edges_from(BLOCK_EDGES)
    ff.blocks['RA'] = block
    for name in mod_names:
        nodes, edges = MODS[name]
        mod = Modification(force_field=ff)
        mod.name = name
        for key, atomname, ptm, element, replace in nodes:
            attrs = {'atomname': atomname, 'PTM_atom': ptm, 'element': element}
            if replace:
                attrs['replace'] = dict(replace)
            mod.add_node(key, **attrs)
        mod.add_edges_from(edges)
        ff.modifications[name] = mod
    return ff


def build(nres, extras, ff):
    """extras: list of (element, attach) with attach = ('atom', res, name) | ('extra', index) | ('bridge', res1, res2).
    Returns (molecule, extra node keys)."""
    import vermouth
    mol = vermouth.molecule.Molecule(force_field=ff)
    key = 0
    atom_key = {}
    for res in range(nres):
        for name in BLOCK_ATOMS:
            mol.add_node(key, atomname=name, resname='RA', resid=res + 1, chain='A', element=name[0], atomid=key + 1)
            atom_key[(res, name)] = key
            key += 1
        for a, b in BLOCK_EDGES:
            mol.add_edge(atom_key[(res, a)], atom_key[(res, b)])
        if res:
            mol.add_edge(atom_key[(res - 1, 'C')], atom_key[(res, 'N')])
    extra_keys = []
    for idx, extra in enumerate(extras):
        element, attach = extra[0], extra[1]
        if attach[0] == 'atom':
            anchors = [atom_key[(attach[1], attach[2])]]
            resid = attach[1] + 1
        elif attach[0] == 'extra':
            anchors = [extra_keys[attach[1]]]
            resid = mol.nodes[anchors[0]]['resid']
        elif attach[0] in ('free', 'free-first'):
            # recorded inside a residue but bonded to nothing (an ion, a stray atom, bonds taken from names only)
            anchors = []
            resid = attach[1] + 1
        elif attach[0] == 'both':
            # bonded to an earlier unexplained atom AND to a residue atom: closes a ring, so that a
            # placement covering these atoms is no longer an induced subgraph
            anchors = [extra_keys[attach[1]], atom_key[(attach[2], attach[3])]]
            resid = attach[2] + 1
        else:
            anchors = [atom_key[(attach[1], 'CA')], atom_key[(attach[2], 'CA')]]
            resid = attach[1] + 1
        mol.add_node(key, atomname=extra[2] if len(extra) > 2 else '%sZ%d' % (element, idx), resname='RA', resid=resid, chain='A',
                     element=element, PTM_atom=True, atomid=key + 1)
        for anchor in anchors:
            mol.add_edge(key, anchor)
        extra_keys.append(key)
        key += 1
    first = [extra_keys[i] for i, extra in enumerate(extras) if extra[1][0] == 'free-first']
    if first:
        # the same molecule with those atoms LISTED first (node order is the order of the input file)
        ordered = vermouth.molecule.Molecule(force_field=ff)
        for node in first + [n for n in mol.nodes if n not in first]:
            ordered.add_node(node, **mol.nodes[node])
        ordered.add_edges_from(mol.edges)
        mol = ordered
    return mol, extra_keys


# ----------------------------------------------------------------------------- brute force

def placements(mol, mod_name, allowed_nodes):
    """All induced placements of modification `mod_name` on `allowed_nodes` of mol:
    anchors -> non-PTM atoms with the same atomname; added atoms -> PTM atoms with the same element."""
    nodes, edges = MODS[mod_name]
    medges = {frozenset(e) for e in edges}
    keys = [n[0] for n in nodes]
    out = []
    assign = {}

    def ok(node, cand):
        _, atomname, ptm, element, _ = node
        data = mol.nodes[cand]
        if bool(data.get('PTM_atom', False)) != ptm:
            return False
        if ptm:
            return data.get('element') == element
        return data.get('atomname') == atomname

    def rec(i):
        if i == len(nodes):
            out.append(dict(assign))
            return
        node = nodes[i]
        for cand in allowed_nodes:
            if cand in assign.values() or not ok(node, cand):
                continue
            good = True
            for j in range(i):
                want = frozenset((keys[i], keys[j])) in medges
                have = mol.has_edge(cand, assign[keys[j]])
                if want != have:
                    good = False
                    break
            if good:
                assign[keys[i]] = cand
                rec(i + 1)
                del assign[keys[i]]
    rec(0)
    return out


def exact_covers(mol, mod_names, group_nodes, ptm_atoms, anchors):
    """All sets of placements covering every atom of ptm_atoms exactly once and every anchor at least once."""
    cands = []
    for name in mod_names:
        seen = set()
        for place in placements(mol, name, group_nodes):
            covered = frozenset(v for k, v in place.items() if mol.nodes[v].get('PTM_atom'))
            if not covered <= ptm_atoms:
                continue
            ident = (name, frozenset(place.items()))
            # placements differing only by a symmetry of the modification give the same covered set; keep them all
            if ident in seen:
                continue
            seen.add(ident)
            cands.append((name, place, covered))
    solutions = []

    def rec(remaining, chosen, start):
        if not remaining:
            touched = set()
            for _, place, _ in chosen:
                touched.update(place.values())
            if anchors <= touched:
                solutions.append(list(chosen))
            return
        target = min(remaining)
        for idx in range(len(cands)):
            name, place, covered = cands[idx]
            if target in covered and covered <= remaining:
                rec(remaining - covered, chosen + [cands[idx]], idx)
    rec(frozenset(ptm_atoms), [], 0)
    return solutions


def outcome_of(mol, solution):
    """(labels multiset, {extra atom -> new name}, {anchor atom -> replaced attrs})."""
    labels = sorted(name for name, _, _ in solution)
    naming = {}
    replaced = {}
    for name, place, _ in solution:
        for key, atomname, ptm, element, replace in MODS[name][0]:
            node = place[key]
            if ptm:
                naming[node] = atomname
            if replace:
                replaced.setdefault(node, {}).update(replace)
    return labels, naming, replaced


def groups_of(mol, extra_keys):
    """PTM components with their anchors, grouped by the sorted anchor residue numbers (as the statement's
    'touched residues')."""
    import networkx as nx
    sub = mol.subgraph(extra_keys)
    comps = []
    for comp in nx.connected_components(sub):
        anchors = set()
        for node in comp:
            anchors.update(n for n in mol[node] if n not in extra_keys)
        comps.append((frozenset(comp), frozenset(anchors)))
    grouped = {}
    for comp, anchors in comps:
        key = tuple(sorted(mol.nodes[a]['resid'] for a in anchors))
        grouped.setdefault(key, []).append((comp, anchors))
    return grouped


def check(nres, extras, mod_names, acc, sample=False):
    from vermouth.processors.canonicalize_modifications import CanonicalizeModifications
    ff = force_field(mod_names)
    mol, extra_keys = build(nres, extras, ff)
    case = {'nres': nres, 'extras': [[x[0], list(x[1])] + list(x[2:]) for x in extras], 'mods': list(mod_names)}
    reference = mol.copy()
    grouped = groups_of(reference, set(extra_keys))
    try:
        with common.LogCapture() as log:
            CanonicalizeModifications().run_molecule(mol)
    except Exception as err:   # pylint: disable=broad-except
        acc.case(outcome='exc')
        acc.violation('c14:exception', 'CanonicalizeModifications raised %r' % (err,), case)
        return
    unknown_warnings = [t for t in log.types() if t == 'unknown-input']
    problems = []
    expected_warnings = 0
    ncands = 0
    group_choices = []
    for key in sorted(grouped):
        comps = grouped[key]
        ptm_atoms = frozenset().union(*(c for c, _ in comps))
        anchors = frozenset().union(*(a for _, a in comps))
        if not anchors:
            # unexplained atoms bonded to no template atom: no modification can anchor them, so they have to go, with a warning
            survivors = [a for a in ptm_atoms if a in mol]
            expected_warnings += 1
            if survivors:
                problems.append(('c14:unexplained-atom-kept(unanchored)', 'atoms %r are bonded to no template atom, so no modification can '
                                 'explain them, yet %r were kept (labels %r)' % (sorted(ptm_atoms), sorted(survivors),
                                                                                [m.name for m in mol.nodes[survivors[0]].get('modifications', [])])))
                break
            continue
        resids = set(key)
        group_nodes = [n for n in reference.nodes if reference.nodes[n]['resid'] in resids]
        solutions = exact_covers(reference, mod_names, group_nodes, ptm_atoms, anchors)
        ncands += len(solutions)
        survivors = [a for a in ptm_atoms if a in mol]
        if not solutions:
            expected_warnings += 1
            if survivors:
                problems.append(('c14:unexplained-atom-kept', 'no combination of modifications %r covers atoms %r of residues %r exactly, '
                                 'yet atoms %r were kept (labels %r)' % (list(mod_names), sorted(ptm_atoms), sorted(resids), sorted(survivors),
                                                                         [m.name for m in mol.nodes[survivors[0]].get('modifications', [])])))
                break
            continue
        if len(survivors) != len(ptm_atoms):
            problems.append(('c14:explainable-atom-removed', 'atoms %r of residues %r have an exact cover (%r) but were removed' % (
                sorted(ptm_atoms), sorted(resids), outcome_of(reference, solutions[0])[0])))
            break
        got_naming = {a: mol.nodes[a]['atomname'] for a in ptm_atoms}
        label_sets = []
        for node in group_nodes:
            if node in mol:
                label_sets.append(sorted(m.name for m in mol.nodes[node].get('modifications', [])))
        outcomes = [outcome_of(reference, s) for s in solutions]
        match = [o for o in outcomes if o[1] == got_naming]
        if not match:
            problems.append(('c14:not-an-exact-cover', 'atoms %r were named %r, which no exact cover by induced placements produces (covers give %r)' % (
                sorted(ptm_atoms), got_naming, [o[1] for o in outcomes][:3])))
            break
        group_choices.append((resids, match))
        repl_ok = False
        for o in match:
            if all(mol.nodes[node].get(attr) == val for node, attrs in o[2].items() for attr, val in attrs.items()):
                repl_ok = True
        if not repl_ok:
            problems.append(('c14:replace-not-applied', 'attribute replacements of the applied modifications %r were not applied' % (match[0][0],)))
            break
    if not problems:
        # labels: every atom of a touched residue carries the modifications of every identified group that touches its residue
        for node, data in mol.nodes(data=True):
            relevant = [choices for resids, choices in group_choices if data['resid'] in resids]
            have = sorted(m.name for m in data.get('modifications', []))
            possible = set()
            for combo in itertools.product(*[[tuple(o[0]) for o in choices] for choices in relevant]):
                possible.add(tuple(sorted(x for labels in combo for x in labels)))
            if tuple(have) not in possible:
                problems.append(('c14:labels', 'atom %r of residue %r carries modification labels %r; the identified modifications touching that '
                                 'residue give %r' % (data.get('atomname'), data['resid'], have, sorted(possible))))
                break
    if not problems:
        if len(unknown_warnings) != expected_warnings:
            sig = 'c14:removed-without-warning' if len(unknown_warnings) < expected_warnings else 'c14:spurious-unknown-input-warning'
            problems.append((sig, '%d unknown-input warnings, %d groups of atoms without a cover' % (len(unknown_warnings), expected_warnings)))
        for node, data in mol.nodes(data=True):
            if data.get('PTM_atom') and not data.get('modifications') and not problems:
                problems.append(('c14:unlabelled-survivor', 'unexplained atom %r survived without any modification label' % (node,)))
    acc.case(nontrivial=bool(extras) and (ncands != 1), outcome=(len(mol), len(unknown_warnings), ncands),
             sample=dict(case, kept=len(mol), warnings=len(unknown_warnings)) if sample else None)
    for sig, desc in problems[:1]:
        acc.violation(sig, desc, case)


def all_extras(nres, max_extra):
    sites = [('atom', r, n) for r in range(nres) for n in BLOCK_ATOMS]
    bridges = [('bridge', a, b) for a in range(nres) for b in range(a + 1, nres)]
    first = [(e, s) for e in ELEMENTS for s in sites] + [('S', b) for b in bridges]
    first += [(e, ('free', r)) for e in ('H', 'S', 'P') for r in range(nres)]
    first += [('H', ('free-first', r)) for r in range(nres)]
    yield ()
    for one in first:
        yield (one,)
    if max_extra >= 2:
        for one in first:
            second_sites = sites + [('extra', 0)]
            for e in ELEMENTS:
                for s in second_sites:
                    yield (one, (e, s))
            for b in bridges:
                yield (one, ('S', b))
            if one[1][0] == 'atom':
                # an unexplained atom that carries the NAME of a template atom (an anchor of some modification), chained onto
                # the first unexplained atom: a name alone does not make it that template atom
                for name in BLOCK_ATOMS:
                    yield (one, (name[0], ('extra', 0), name))
                for e in ('H', 'O'):
                    for s in sites:
                        if s[1] == one[1][1]:
                            yield (one, (e, ('both', 0, s[1], s[2])))
    if max_extra >= 3:
        # the combinations that stress sub-patterns: up to three atoms on the N and the C of one residue
        for combo in itertools.product([('H', ('atom', 0, 'N')), ('O', ('atom', 0, 'C')), ('H', ('extra', 0)), ('H', ('extra', 1)),
                                        ('S', ('atom', 0, 'CA')), ('O', ('atom', nres - 1, 'C'))], repeat=3):
            if any(a[1][0] == 'extra' and a[1][1] >= idx for idx, a in enumerate(combo)):
                continue
            yield combo


# ----------------------------------------------------------------------------- through RepairGraph, residues sharing a number

LAYOUTS = {
    'A1-B1': [('A', 1), ('B', 1)],
    'A1-A2-B2-B3': [('A', 1), ('A', 2), ('B', 2), ('B', 3)],
    'A7-B7-A8': [('A', 7), ('B', 7), ('A', 8)],
    'A1-A2': [('A', 1), ('A', 2)],
}
PIPE_EXTRAS = {'O-on-C': ('O', 'C', 'OX', 'C-OX'), 'H-on-N': ('H', 'N', 'HX', 'ADD-H'), 'P-on-CA': ('P', 'CA', None, None),
               'S-on-CA': ('S', 'CA', 'SG', 'CA-S')}


def pipeline_case(item, acc):
    """AnnotateMutMod -> RepairGraph -> CanonicalizeModifications on one molecule whose chains reuse residue numbers: a
    modification is REQUESTED for one residue; another residue (never named by a request) carries an unexplained atom, which
    must end up identified (canonical name + label) or removed with an unknown-input warning - not silently dropped."""
    import vermouth
    from vermouth.processors.annotate_mut_mod import AnnotateMutMod
    from vermouth.processors.repair_graph import RepairGraph
    from vermouth.processors.canonicalize_modifications import CanonicalizeModifications
    layout, requested, request_mod, extra_kind, extra_res = item
    case = {'layer': 'pipeline', 'layout': layout, 'requested': requested, 'request_mod': request_mod, 'extra': extra_kind, 'extra_res': extra_res}
    ff = force_field(tuple(MODS))
    system = vermouth.System(force_field=ff)
    mol = vermouth.molecule.Molecule(force_field=ff)
    key = 0
    atom_key = {}
    residues = LAYOUTS[layout]
    for ridx, (chain, resid) in enumerate(residues):
        for name in BLOCK_ATOMS:
            mol.add_node(key, atomname=name, resname='RA', resid=resid, chain=chain, element=name[0], atomid=key + 1)
            atom_key[(ridx, name)] = key
            key += 1
        for a, b in BLOCK_EDGES:
            mol.add_edge(atom_key[(ridx, a)], atom_key[(ridx, b)])
        if ridx:
            mol.add_edge(atom_key[(ridx - 1, 'C')], atom_key[(ridx, 'N')])
    element, anchor, canonical, label = PIPE_EXTRAS[extra_kind]
    chain, resid = residues[extra_res]
    extra = key
    mol.add_node(extra, atomname='%sZ9' % element, resname='RA', resid=resid, chain=chain, element=element, atomid=key + 1)
    mol.add_edge(extra, atom_key[(extra_res, anchor)])
    system.molecules.append(mol)
    rchain, rresid = residues[requested]
    try:
        with common.LogCapture() as log:
            AnnotateMutMod(modifications=[('%s-RA%d' % (rchain, rresid), request_mod)]).run_system(system)
            RepairGraph().run_system(system)
            after_repair = extra in system.molecules[0]
            CanonicalizeModifications().run_system(system)
    except Exception as err:   # pylint: disable=broad-except
        acc.case(outcome='exc')
        acc.violation('c14:pipeline-exception', 'the pipeline raised %r' % (err,), case)
        return
    out = system.molecules[0]
    warned = 'unknown-input' in log.types()
    problem = None
    if canonical is None:
        if extra in out:
            problem = ('c14:pipeline-unexplained-atom-kept', 'the %s atom on %s of residue %s%d matches no modification but was kept' % (element, anchor, chain, resid))
        elif not warned:
            problem = ('c14:pipeline-removed-without-warning', 'the %s atom on %s of residue %s%d (no request names that residue) was removed without an '
                       'unknown-input warning (present after RepairGraph: %s)' % (element, anchor, chain, resid, after_repair))
    else:
        if extra not in out:
            if not warned:
                problem = ('c14:pipeline-removed-without-warning', 'the %s atom on %s of residue %s%d (no request names that residue; modification %s explains it) '
                           'was removed without an unknown-input warning (present after RepairGraph: %s)' % (element, anchor, chain, resid, label, after_repair))
            else:
                problem = ('c14:pipeline-explainable-atom-removed', 'the %s atom on %s of residue %s%d is explained by %s but was removed' % (element, anchor, chain, resid, label))
        else:
            node = out.nodes[extra]
            labels = [m.name for m in node.get('modifications', [])]
            if node.get('atomname') != canonical or label not in labels:
                problem = ('c14:pipeline-not-identified', 'the %s atom on %s of residue %s%d should be %s of %s; it is named %r with labels %r' % (
                    element, anchor, chain, resid, canonical, label, node.get('atomname'), labels))
    shared = sum(1 for c, r in residues if r == residues[requested][1]) > 1
    acc.case(nontrivial=shared, outcome=('pipe', extra in out, warned, problem[0] if problem else None))
    if problem:
        acc.violation(problem[0], problem[1], case)


def double_request_case(item, acc):
    """TWO modification requests name the same residue, and the input residue already carries the atoms of both (under arbitrary
    names): the reference RepairGraph builds has both modifications, so both atoms are accounted for - they must come out
    under their canonical names with both labels, not be dropped without a word."""
    import vermouth
    from vermouth.processors.annotate_mut_mod import AnnotateMutMod
    from vermouth.processors.repair_graph import RepairGraph
    from vermouth.processors.canonicalize_modifications import CanonicalizeModifications
    layout, requested, order = item
    case = {'layer': 'pipeline-double', 'layout': layout, 'requested': requested, 'order': list(order)}
    ff = force_field(tuple(MODS))
    system = vermouth.System(force_field=ff)
    mol = vermouth.molecule.Molecule(force_field=ff)
    key = 0
    atom_key = {}
    residues = LAYOUTS[layout]
    for ridx, (chain, resid) in enumerate(residues):
        for name in BLOCK_ATOMS:
            mol.add_node(key, atomname=name, resname='RA', resid=resid, chain=chain, element=name[0], atomid=key + 1)
            atom_key[(ridx, name)] = key
            key += 1
        for a, b in BLOCK_EDGES:
            mol.add_edge(atom_key[(ridx, a)], atom_key[(ridx, b)])
        if ridx:
            mol.add_edge(atom_key[(ridx - 1, 'C')], atom_key[(ridx, 'N')])
    chain, resid = residues[requested]
    extras = {}
    for element, anchor, canonical, label in (PIPE_EXTRAS['H-on-N'], PIPE_EXTRAS['O-on-C']):
        mol.add_node(key, atomname='%sQ7' % element, resname='RA', resid=resid, chain=chain, element=element, atomid=key + 1)
        mol.add_edge(key, atom_key[(requested, anchor)])
        extras[key] = (canonical, label)
        key += 1
    system.molecules.append(mol)
    spec = '%s-RA%d' % (chain, resid)
    try:
        with common.LogCapture() as log:
            AnnotateMutMod(modifications=[(spec, name) for name in order]).run_system(system)
            RepairGraph().run_system(system)
            CanonicalizeModifications().run_system(system)
    except Exception as err:   # pylint: disable=broad-except
        acc.case(outcome='exc')
        acc.violation('c14:pipeline-exception', 'the pipeline raised %r' % (err,), case)
        return
    out = system.molecules[0]
    warned = 'unknown-input' in log.types()
    problem = None
    for node_key, (canonical, label) in extras.items():
        if node_key not in out:
            problem = ('c14:pipeline-removed-without-warning' if not warned else 'c14:pipeline-explainable-atom-removed',
                       'requests %r on residue %s: its atom for %s (present in the input) was removed%s' % (
                           list(order), spec, label, '' if warned else ' without an unknown-input warning'))
            break
        labels = [m.name for m in out.nodes[node_key].get('modifications', [])]
        if out.nodes[node_key].get('atomname') != canonical or label not in labels:
            problem = ('c14:pipeline-not-identified', 'requests %r on residue %s: the atom of %s is named %r with labels %r' % (
                list(order), spec, label, out.nodes[node_key].get('atomname'), labels))
            break
    acc.case(nontrivial=True, outcome=('double', problem[0] if problem else None, warned))
    if problem:
        acc.violation(problem[0], problem[1], case)


def pipeline_items():
    for layout, residues in LAYOUTS.items():
        for requested in range(len(residues)):
            for request_mod in ('ADD-H', 'C-OX'):
                for extra_kind in PIPE_EXTRAS:
                    for extra_res in range(len(residues)):
                        if extra_res != requested:
                            yield layout, requested, request_mod, extra_kind, extra_res


def work(task):
    common.bind_repo()
    if task[0] == 'pipeline':
        acc = Acc()
        for item in task[1]:
            if item[0] == 'double':
                double_request_case(item[1:], acc)
            else:
                pipeline_case(item, acc)
        return acc
    nres, extras_list, mod_sets = task
    acc = Acc()
    for extras in extras_list:
        for mods in mod_sets:
            check(nres, extras, mods, acc, sample=(acc.states % 3001 == 0))
    return acc


def run(ctx):
    names = list(MODS)
    if ctx.quick:
        mod_sets = [tuple(names), (), ('ADD-H', 'C-OX'), ('ADD-HH', 'COOH', 'BRIDGE'), ('ADD-H', 'ADD-HH', 'COOH', 'CA-S')] + \
                   [tuple(c) for c in itertools.combinations(names, 5)]
        plan = [(1, 3), (2, 2)]
    else:
        mod_sets = [tuple(c) for r in range(0, len(names) + 1) for c in itertools.combinations(names, r)]
        plan = [(1, 3), (2, 2), (3, 2)]
    ctx.bound = {'residues_and_extra_atoms': plan, 'modification_sets': len(mod_sets)}
    tasks = []
    for nres, max_extra in plan:
        extras = list(all_extras(nres, max_extra))
        for chunk in common.chunked(extras, max(1, len(extras) // 48)):
            tasks.append((nres, chunk, mod_sets))
    acc = Acc()
    for part in common.pmap(work, tasks):
        acc += part
    ctx.layer('placements', acc)
    items = list(pipeline_items())
    items += [('double', layout, requested, order) for layout, residues in LAYOUTS.items() for requested in range(len(residues))
              for order in (('ADD-H', 'C-OX'), ('C-OX', 'ADD-H'))]
    acc = Acc()
    for part in common.pmap(work, [('pipeline', chunk) for chunk in common.chunked(items, max(1, len(items) // 16))]):
        acc += part
    ctx.layer('requests-and-shared-residue-numbers', acc)


def replay(case):
    common.bind_repo()
    if case.get('layer') == 'pipeline-double':
        acc = Acc()
        double_request_case((case['layout'], case['requested'], tuple(case['order'])), acc)
        return [(s, d) for s, d, _ in acc.violations]
    if case.get('layer') == 'pipeline':
        acc = Acc()
        pipeline_case((case['layout'], case['requested'], case['request_mod'], case['extra'], case['extra_res']), acc)
        return [(s, d) for s, d, _ in acc.violations]
    acc = Acc()
    extras = tuple((x[0], tuple(x[1])) + tuple(x[2:]) for x in case['extras'])
    check(case['nres'], extras, tuple(case['mods']), acc)
    return [(s, d) for s, d, _ in acc.violations]
