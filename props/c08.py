"""
C08 — warning allowances are accounted exactly; errors are never waived.

Alphabet : counters = 3 warning types x counts {0..3} at WARNING, one record possible at a
           level between WARNING and ERROR, {0,1} at ERROR (per two types), INFO noise;
           specification lists of <= s entries over (None,n) | (t,None) | (t,n),
           n in {-1,0,1,2,5}, t in 3 occurring types + 1 that never occurs; repeats allowed;
           entries grouped into argparse-style sub-lists in every way for s<=2.
           The combination the property leaves unspecified (same type waived by name AND
           given a number) is not generated.
Oracle   : the formula of the statement, written directly.
Plus     : the -maxwarn argument parser of bin/martinize2 against a reference grammar on
           all strings up to length L over a 6-letter alphabet.
"""
import argparse
import itertools
import logging

from mc import common, cli
from mc.common import Acc

RULE = ("every (counter, specification list) pair of the stated alphabet is evaluated; distinct = distinct "
        "(counter, spec list); non-trivial = at least one WARNING-level record and a non-empty spec list; "
        "parser part: every string over {2,1,a,b,:,-} up to the length bound")
ASSUMPTIONS = ["a type both waived by name and given a numeric limit is unspecified by the property and not generated",
               "record levels: INFO=20, WARNING=30, 35 (between), ERROR=40"]

TYPES = ['a', 'b', 'c']
ABSENT = 'z'
NUMS = [-1, 0, 1, 2, 5]


def reference(counts, specs):
    """counts: {level: {type: n}}; specs: flat list of (type|None, n|None)."""
    above = sum(n for lvl, tc in counts.items() if lvl > logging.WARNING for n in tc.values())
    warn = counts.get(logging.WARNING, {})
    waived = {t for t, n in specs if n is None}
    limits = {}
    for t, n in specs:
        if n is not None:
            limits[t] = max(limits.get(t, 0), n, 0)
    blanket = limits.pop(None, 0)
    left = above
    rest = 0
    for t, c in warn.items():
        if t in limits:
            left += max(0, c - limits[t])
        elif t in waived:
            pass
        else:
            rest += c
    left += max(0, rest - blanket)
    return left


def all_specs(max_len):
    entries = [(None, n) for n in NUMS]
    for t in TYPES + [ABSENT]:
        entries.append((t, None))
        entries.extend((t, n) for n in NUMS)
    for length in range(max_len + 1):
        for combo in itertools.product(entries, repeat=length):
            named = {t for t, n in combo if n is None}
            numbered = {t for t, n in combo if n is not None}
            if named & numbered:
                continue   # unspecified by the property
            yield combo


def groupings(combo):
    """All ways argparse could hand the entries over: list of lists (order kept)."""
    n = len(combo)
    if n == 0:
        yield []
        return
    for cuts in itertools.product([0, 1], repeat=n - 1):
        out, cur = [], [combo[0]]
        for c, item in zip(cuts, combo[1:]):
            if c:
                out.append(cur)
                cur = [item]
            else:
                cur.append(item)
        out.append(cur)
        yield out


def counters(tier):
    rng = [0, 1, 2, 3]
    for wa, wb, wc in itertools.product(rng, repeat=3):
        for mid in ([None] if tier == 'quick' and (wa + wb + wc) % 2 else [None, 'a', 'd']):
            for ea, eb in itertools.product([0, 1], repeat=2):
                counts = {logging.WARNING: {}, }
                for t, n in zip(TYPES, (wa, wb, wc)):
                    if n:
                        counts[logging.WARNING][t] = n
                if mid:
                    counts[35] = {mid: 1}
                err = {}
                if ea:
                    err['a'] = 1
                if eb:
                    err['e'] = 2
                if err:
                    counts[logging.ERROR] = err
                counts[logging.INFO] = {'a': 4}
                yield counts


def make_counter(counts):
    from vermouth.log_helpers import CountingHandler
    handler = CountingHandler()
    for lvl, tc in counts.items():
        for t, n in tc.items():
            handler.counts[lvl][t] = n
    return handler


def make_counter_by_logging(counts):
    """Same, but by really emitting records through a logger (binds the model of
    'counts' to how the CLI fills it)."""
    from vermouth.log_helpers import CountingHandler, TypeAdapter
    handler = CountingHandler()
    handler.setLevel(logging.WARNING)
    logger = logging.Logger('verif-c08')
    logger.addHandler(handler)
    adapter = TypeAdapter(logger)
    for lvl, tc in counts.items():
        for t, n in tc.items():
            for _ in range(n):
                adapter.log(lvl, 'msg', type=t)
    return handler


def evaluate(counts, grouped):
    from vermouth.log_helpers import ignore_warnings_and_count
    handler = make_counter(counts)
    return ignore_warnings_and_count(handler, grouped)


def check_one(counts, combo, grouped, acc):
    expected = reference(counts, combo)
    case = {'counts': {str(k): v for k, v in counts.items()}, 'specs': [list(g) for g in grouped]}
    try:
        got = evaluate(counts, grouped)
    except Exception as err:   # the model accepts every generated input
        acc.violation('exception', 'ignore_warnings_and_count raised %r' % (err,), case)
        return None
    warn = counts.get(logging.WARNING, {})
    nontrivial = bool(warn) and bool(combo)
    acc.case(nontrivial=nontrivial, outcome=(got, sum(warn.values())),
             sample=case if (acc.states % 9973 == 0) else None)
    if got != expected:
        above = sum(n for lvl, tc in counts.items() if lvl > logging.WARNING for n in tc.values())
        if got < 0:
            sig = 'negative-leftover'
        elif got < above:
            sig = 'error-waived'
        elif got < expected:
            sig = 'undercount'
        else:
            sig = 'overcount'
        acc.violation(sig, 'leftover=%r, the statement gives %r' % (got, expected), case)
    return got


def work(task):
    common.bind_repo()
    counts_list, max_len, group_all = task
    acc = Acc()
    specs = list(all_specs(max_len))
    for counts in counts_list:
        for combo in specs:
            gs = list(groupings(combo)) if (group_all and len(combo) <= 2) else [[list(combo)] if combo else []]
            for grouped in gs:
                check_one(counts, combo, grouped, acc)
    return acc


# ---------------------------------------------------------------- histories on one counter

H_EMITS = [(logging.WARNING, 'a'), (logging.WARNING, 'b'), (logging.WARNING, None), (35, 'a'), (logging.ERROR, 'a'),
           (logging.ERROR, None), (logging.INFO, 'a'), (logging.WARNING, 'adapter-untyped')]
H_EVALS = [[], [[(None, 1)]], [[('general', None)]], [[('a', 1)]], [[('general', 1)], [('b', None)]]]
H_OPS = [('emit', e) for e in H_EMITS] + [('eval', s) for s in H_EVALS]


def history_case(ops, acc):
    """One CountingHandler that lives through a history of records being logged (through the typed adapter, or by a
    plain logger without any type: documented to count as 'general') and allowances being evaluated in between; every
    evaluation must agree with the statement applied to the records logged so far."""
    from vermouth.log_helpers import CountingHandler, TypeAdapter, ignore_warnings_and_count
    handler = CountingHandler()
    handler.setLevel(logging.WARNING)
    logger = logging.Logger('verif-c08-history')
    logger.addHandler(handler)
    adapter = TypeAdapter(logger)
    model = {}
    evals = 0
    for step, (kind, arg) in enumerate(ops):
        if kind == 'emit':
            level, typ = arg
            if typ is None:
                logger.log(level, 'msg')
            elif typ == 'adapter-untyped':
                adapter.log(level, 'msg')        # through the typed adapter, without a type: documented default 'general'
                typ = None
            else:
                adapter.log(level, 'msg', type=typ)
            if level >= logging.WARNING:
                model.setdefault(level, {})
                model[level][typ or 'general'] = model[level].get(typ or 'general', 0) + 1
            continue
        evals += 1
        flat = [x for g in arg for x in g]
        expected = reference(model, flat)
        case = {'history': [[k, jsonable_op(a)] for k, a in ops[:step + 1]]}
        try:
            got = ignore_warnings_and_count(handler, arg)
        except Exception as err:   # pylint: disable=broad-except
            acc.violation('history:exception', 'ignore_warnings_and_count raised %r' % (err,), case)
            break
        if got != expected:
            above = sum(n for lvl, tc in model.items() if lvl > logging.WARNING for n in tc.values())
            sig = 'history:error-waived' if got < above else ('history:undercount' if got < expected else 'history:overcount')
            acc.violation(sig, 'after the history %r the leftover is %r, the statement gives %r (records so far %r)' % (
                case['history'], got, expected, model), case)
            break
    acc.case(nontrivial=evals > 0 and bool(model.get(logging.WARNING)), outcome=('h', evals, tuple(sorted(map(str, model.items())))))


def jsonable_op(arg):
    return [list(map(list, g)) for g in arg] if isinstance(arg, list) and (not arg or isinstance(arg[0], list)) else list(arg)


def history_work(task):
    common.bind_repo()
    prefixes, depth = task
    acc = Acc()
    for prefix in prefixes:
        for rest in itertools.product(H_OPS, repeat=depth - len(prefix)):
            ops = list(prefix) + list(rest)
            if ops[-1][0] != 'eval':
                continue        # a history that does not end in an evaluation is a prefix of one that does
            history_case(ops, acc)
    return acc


# ---------------------------------------------------------------- parser part

def ref_maxwarn(value):
    """Reference grammar: <int> | <type> | <type>:<int>  (int() syntax of Python)."""
    def as_int(text):
        try:
            return int(text)
        except ValueError:
            return None
    parts = value.split(':')
    if len(parts) == 1:
        n = as_int(value)
        return (None, n) if n is not None else (value, None)
    if len(parts) == 2:
        n = as_int(parts[1])
        if n is not None:
            return (parts[0], n)
    return 'error'


def parser_part(acc, max_len):
    script = cli.load_script()
    letters = ['2', '1', 'a', 'B', ':', '-']      # type names are case-sensitive (one shipped type, DSSP-version, has capitals)
    for length in range(1, max_len + 1):
        for tup in itertools.product(letters, repeat=length):
            text = ''.join(tup)
            expected = ref_maxwarn(text)
            try:
                got = script.maxwarn(text)
            except argparse.ArgumentTypeError:
                got = 'error'
            except Exception as err:
                got = 'exception %r' % (err,)
            acc.case(nontrivial=':' in text, outcome=('p', repr(got)[:12]),
                     sample={'maxwarn': text, 'parsed': repr(got)} if acc.states % 500 == 0 else None)
            if got != expected:
                acc.violation('maxwarn-parser', 'maxwarn(%r) -> %r, grammar gives %r' % (text, got, expected),
                              {'maxwarn': text})


def logging_binding(acc):
    """counts filled by real logging == counts filled directly (binds model to CLI)."""
    from vermouth.log_helpers import ignore_warnings_and_count
    for counts in itertools.islice(counters('thorough'), 0, None, 7):
        direct = make_counter(counts)
        emitted = make_counter_by_logging(counts)
        expect = {lvl: dict(tc) for lvl, tc in counts.items() if lvl >= logging.WARNING and tc}
        got = {lvl: dict(tc) for lvl, tc in emitted.counts.items() if tc}
        acc.case(nontrivial=True, outcome=('l', sorted(map(str, got))))
        if got != expect:
            acc.violation('counting-handler', 'CountingHandler counted %r for emitted %r' % (got, expect),
                          {'counts': {str(k): v for k, v in counts.items()}, 'via': 'logging'})
        for specs in ([], [[(None, 2)]], [[('a', None)], [('b', 1)]]):
            flat = [s for g in specs for s in g]
            a = ignore_warnings_and_count(emitted, specs)
            if a != reference(counts, flat):
                acc.violation('undercount' if a < reference(counts, flat) else 'overcount',
                              'via logging: leftover=%r, statement gives %r' % (a, reference(counts, flat)),
                              {'counts': {str(k): v for k, v in counts.items()}, 'specs': specs, 'via': 'logging'})


def run(ctx):
    max_len = 2 if ctx.quick else 3
    ctx.bound = {'spec_list_length': max_len, 'warning_counts': '0..3 x 3 types', 'parser_string_length': 5 if ctx.quick else 6}
    all_counts = list(counters(ctx.tier))
    tasks = [(chunk, max_len, True) for chunk in common.chunked(all_counts, max(1, len(all_counts) // 64))]
    main = Acc()
    for part in common.pmap(work, tasks):
        main += part
    ctx.layer('allowance-formula', main)
    par = Acc()
    parser_part(par, 5 if ctx.quick else 6)
    ctx.layer('maxwarn-parser', par)
    lb = Acc()
    logging_binding(lb)
    ctx.layer('counting-handler-binding', lb)
    hist = Acc()
    for depth in ((2, 3, 4) if ctx.quick else (2, 3, 4, 5)):
        prefixes = [[a, b] for a in H_OPS for b in H_OPS]
        for part in common.pmap(history_work, [(chunk, depth) for chunk in common.chunked(prefixes, 9)]):
            hist += part
    ctx.layer('histories-on-one-counter', hist)
    # the way bin/martinize2 hands its -maxwarn arguments to the accounting: real CLI runs
    from props import c07_cli
    c07_cli.run_layer(ctx, focus='maxwarn', name='cli-maxwarn')


def replay(case):
    common.bind_repo()
    acc = Acc()
    if case.get('layer') == 'cli':
        from props import c07_cli
        return c07_cli.replay(case)
    if 'history' in case:
        ops = []
        for kind, arg in case['history']:
            ops.append((kind, tuple(arg)) if kind == 'emit' else (kind, [[tuple(x) for x in g] for g in arg]))
        history_case(ops, acc)
        return [(s, d) for s, d, _ in acc.violations]
    if 'maxwarn' in case:
        script = cli.load_script()
        text = case['maxwarn']
        try:
            got = script.maxwarn(text)
        except argparse.ArgumentTypeError:
            got = 'error'
        except Exception as err:
            got = 'exception %r' % (err,)
        got = tuple(got) if isinstance(got, tuple) else got
        if got != ref_maxwarn(text):
            acc.violation('maxwarn-parser', 'maxwarn(%r) -> %r' % (text, got), case)
    else:
        counts = {int(k): v for k, v in case['counts'].items()}
        grouped = [[(t, n) for t, n in g] for g in case['specs']]
        combo = [s for g in grouped for s in g]
        if case.get('via') == 'logging':
            logging_binding(acc)
        else:
            check_one(counts, combo, grouped, acc)
    return [(s, d) for s, d, _ in acc.violations]
