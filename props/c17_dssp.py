"""
C17, the DSSP route with its default back-end (mdtraj): the assignment must not depend on how the atoms of the input are
ordered WITHIN the sequence of residues (the order of the residues themselves is the chain direction DSSP works with, so it is
kept).  A 20-residue piece of 1bta (helix and loop) is annotated by the real AnnotateDSSP as given, with the hydrogens of
every residue listed after ALL heavy atoms of the molecule (residues no longer contiguous), with the atoms of every residue
reversed, and with all backbone atoms listed before everything else; the per-residue result on every atom must be the same in all presentations (and must not be
refused in one of them), and every atom of a residue must carry the same class.
"""
import os
import tempfile

from mc import common
from mc.common import Acc

PRESENTATIONS = ['as-given', 'hydrogens-last', 'within-residue-reversed', 'backbone-first']


def annotate(atoms):
    import vermouth
    import numpy as np
    from vermouth.dssp.dssp import AnnotateDSSP
    system = vermouth.System()
    mol = vermouth.molecule.Molecule()
    for idx, atom in enumerate(atoms):
        mol.add_node(idx, atomname=atom['name'].strip(), resname=atom['line'][17:20].strip(), resid=atom['res'][1], chain=atom['res'][0],
                     element=atom['element'], position=np.array(atom['xyz'], dtype=float) / 10.0, atomid=idx + 1, tag=atom['tag'])
    system.molecules.append(mol)
    cwd = os.getcwd()
    work = tempfile.mkdtemp(prefix='verif_c17dssp_')
    try:
        os.chdir(work)
        with common.LogCapture():
            AnnotateDSSP().run_system(system)
    finally:
        os.chdir(cwd)
        import shutil
        shutil.rmtree(work, ignore_errors=True)
    return {mol.nodes[k]['tag']: mol.nodes[k].get('aasecstruct') for k in mol.nodes}


def present(atoms, how):
    if how == 'hydrogens-last':
        return [a for a in atoms if a['element'] != 'H'] + [a for a in atoms if a['element'] == 'H']
    if how == 'within-residue-reversed':
        out, block = [], []
        for atom in atoms:
            if block and block[-1]['res'] != atom['res']:
                out.extend(reversed(block))
                block = []
            block.append(atom)
        return out + list(reversed(block))
    if how == 'backbone-first':
        # N, CA, C, O of every residue first (in residue order), then everything else: residues are not contiguous
        bb = [a for a in atoms if a['name'].strip() in ('N', 'CA', 'C', 'O')]
        return bb + [a for a in atoms if a['name'].strip() not in ('N', 'CA', 'C', 'O')]
    return list(atoms)


def case(how, acc):
    from props import c11
    atoms = [dict(a) for a in c11.load_atoms('bta3-22')]
    for idx, atom in enumerate(atoms):
        atom['tag'] = '%s%d:%s' % (atom['res'][0], atom['res'][1], atom['name'].strip())
    record = {'layer': 'dssp', 'presentation': how}
    try:
        base = annotate(present(atoms, 'as-given'))
    except Exception as err:   # pylint: disable=broad-except
        raise common.HarnessError('AnnotateDSSP (mdtraj) fails on the input as given: %r' % (err,))
    per_residue = {}
    for tag, value in base.items():
        per_residue.setdefault(tag.split(':')[0], set()).add(value)
    problem = None
    if any(len(v) != 1 or None in v for v in per_residue.values()):
        problem = ('dssp-residue-not-uniform', 'as given: atoms of one residue carry different classes: %r' % (
            {r: sorted(map(str, v)) for r, v in per_residue.items() if len(v) != 1 or None in v},))
    elif how != 'as-given':
        try:
            got = annotate(present(atoms, how))
        except Exception as err:   # pylint: disable=broad-except
            got = None
            problem = ('dssp-presentation-refused', 'the same structure with its atoms listed %s is refused: %r' % (how, str(err)[:200]))
        if got is not None and got != base:
            diff = [(t, base[t], got.get(t)) for t in base if got.get(t) != base[t]][:4]
            problem = ('dssp-presentation-dependent', 'atoms listed %s: assignment differs from the assignment for the file as given, e.g. %r' % (how, diff))
    classes = {next(iter(v)) for v in per_residue.values() if len(v) == 1}
    acc.case(nontrivial=len(classes) > 1, outcome=('dssp', how, tuple(sorted(map(str, classes))), problem[0] if problem else None))
    if problem:
        acc.violation(problem[0], problem[1], record)


def work(task):
    common.bind_repo()
    acc = Acc()
    for how in task:
        case(how, acc)
    return acc


def run_layer(ctx):
    try:
        import mdtraj  # noqa: F401  pylint: disable=unused-import,import-outside-toplevel
    except ImportError:
        ctx.assumptions.append('mdtraj is not installed: the DSSP route cannot be exercised')
        return
    acc = Acc()
    for part in common.pmap(work, [[how] for how in PRESENTATIONS]):
        acc += part
    ctx.layer('dssp-route-atom-order', acc)


def replay(record):
    common.bind_repo()
    acc = Acc()
    case(record['presentation'], acc)
    return [(s, d) for s, d, _ in acc.violations]
