"""
C09, end to end: the constituents and weights a particle records come from the mapping DECLARATION
(do_mapping.py:633-639), the position from DoAverageBead.  This layer goes from a declaration (block
mappings, modification mappings inside one residue and across two residues, Backward-style mapping
file text) through do_mapping + DoAverageBead on the real code and compares every particle with the
weighted mean computed from the declaration alone (exact rationals on an integer lattice).

Enumerated
  molecules : 2..3 residues X (atoms a, b -> particle P with weights (wa, wb)); every set of
              decorations out of {cross-link between residues i<j: b_i - m - n - b_j giving a new
              particle M = (wm m + wn n); terminal modification on residue i: b_i - t, the atom t
              either building a new particle T or being folded into P_i}; atom numbering forward /
              reversed / interleaved; 3 rigid motions.
  files     : a Backward-style mapping file text for a ligand, read with force fields whose block
              lists the atoms in every order and with/without the optional atom; every SEQUENCE of
              one or two such (force fields, read, map, average) rounds in one process - each
              round judged on its own.
"""
import itertools
from fractions import Fraction

from mc import common
from mc.common import Acc
from props.c09 import ROTS, TRANS, move

BLOCK_WEIGHTS = [(1, 2), (1, 1), (0, 1), (2, 1)]
LINK_WEIGHTS = [(1, 3), (1, 1), (0, 1)]
MOTIONS = [(0, 0), (5, 1), (13, 2)]


def lattice(tag):
    """A fixed integer position per atom tag: distinct, not collinear, no symmetric arrangement."""
    kind, res = tag[0], int(tag[1:]) if tag[1:] else 0
    base = {'a': (0, 0, 0), 'b': (1, 3, -1), 'm': (4, 5, 2), 'n': (6, -2, 5), 't': (-3, 2, 7), 'u': (2, -5, 4)}[kind]
    return (base[0] + 7 * res, base[1] - 2 * res * res, base[2] + 3 * res)


def wmean(pairs):
    total = sum(Fraction(w) for w, _ in pairs)
    if total == 0:
        return None
    return tuple(sum(Fraction(w) * p[c] for w, p in pairs) / total for c in range(3))


def build_world(block_w, link_w):
    from vermouth.forcefield import ForceField
    from vermouth.molecule import Block, Link
    from vermouth.map_parser import Mapping
    wa, wb = block_w
    wm, wn = link_w
    ff_aa, ff_cg = ForceField(name='aa'), ForceField(name='cg')
    block_aa = Block(force_field=ff_aa, name='X')
    block_aa.add_node('a', atomname='a', resname='X', resid=1)
    block_aa.add_node('b', atomname='b', resname='X', resid=1)
    block_aa.add_edge('a', 'b')
    block_cg = Block(force_field=ff_cg, name='X')
    block_cg.add_node('P', atomname='P', resname='X', resid=1)
    ff_aa.blocks['X'] = block_aa
    ff_cg.blocks['X'] = block_cg
    mappings = {('X',): Mapping(block_aa, block_cg, mapping={'a': {'P': wa}, 'b': {'P': wb}}, references={},
                                ff_from=ff_aa, ff_to=ff_cg, names=('X',))}
    mods = {}
    # cross-link over two residues
    mod_aa = Link(force_field=ff_aa, name='LNK')
    mod_aa.add_node('b1', atomname='b', PTM_atom=False)
    mod_aa.add_node('m', atomname='m', PTM_atom=True)
    mod_aa.add_node('n', atomname='n', PTM_atom=True)
    mod_aa.add_node('b2', atomname='b', PTM_atom=False)
    mod_aa.add_edges_from([('b1', 'm'), ('m', 'n'), ('n', 'b2')])
    mod_cg = Link(force_field=ff_cg, name='LNK')
    mod_cg.add_node('P1', atomname='P', PTM_atom=False)
    mod_cg.add_node('M', atomname='M', PTM_atom=True)
    mod_cg.add_node('P2', atomname='P', PTM_atom=False)
    mod_cg.add_edges_from([('P1', 'M'), ('M', 'P2')])
    mappings[('LNK',)] = Mapping(mod_aa, mod_cg, mapping={'b1': {'P1': wb}, 'm': {'M': wm}, 'n': {'M': wn}, 'b2': {'P2': wb}},
                                 references={}, ff_from=ff_aa, ff_to=ff_cg, names=('LNK',), type='modification')
    mods['LNK'] = mod_aa
    # terminal decoration that builds a new particle
    trm_aa = Link(force_field=ff_aa, name='TRM')
    trm_aa.add_node('b', atomname='b', PTM_atom=False)
    trm_aa.add_node('t', atomname='t', PTM_atom=True)
    trm_aa.add_edge('b', 't')
    trm_cg = Link(force_field=ff_cg, name='TRM')
    trm_cg.add_node('P', atomname='P', PTM_atom=False)
    trm_cg.add_node('T', atomname='T', PTM_atom=True)
    trm_cg.add_edge('P', 'T')
    mappings[('TRM',)] = Mapping(trm_aa, trm_cg, mapping={'b': {'P': wb}, 't': {'T': 1}}, references={},
                                 ff_from=ff_aa, ff_to=ff_cg, names=('TRM',), type='modification')
    mods['TRM'] = trm_aa
    # terminal decoration folded into the existing particle
    fld_aa = Link(force_field=ff_aa, name='FLD')
    fld_aa.add_node('b', atomname='b', PTM_atom=False)
    fld_aa.add_node('u', atomname='u', PTM_atom=True)
    fld_aa.add_edge('b', 'u')
    fld_cg = Link(force_field=ff_cg, name='FLD')
    fld_cg.add_node('P', atomname='P', PTM_atom=False)
    mappings[('FLD',)] = Mapping(fld_aa, fld_cg, mapping={'b': {'P': wb}, 'u': {'P': 1}}, references={},
                                 ff_from=ff_aa, ff_to=ff_cg, names=('FLD',), type='modification')
    mods['FLD'] = fld_aa
    return ff_aa, ff_cg, {'aa': {'cg': mappings}}, mods


def decorations(nres):
    """Every set of decorations in which a residue's b atom carries at most one decoration."""
    options = [('LNK', i, j) for i in range(nres) for j in range(i + 1, nres)]
    options += [(kind, i) for kind in ('TRM', 'FLD') for i in range(nres)]
    for size in range(0, 3):
        for combo in itertools.combinations(options, size):
            used = [r for deco in combo for r in deco[1:]]
            if len(used) == len(set(used)):
                yield combo


def molecule_case(item, acc):
    import numpy as np
    import vermouth
    from vermouth.processors.do_mapping import do_mapping
    from vermouth.processors.average_beads import DoAverageBead
    nres, decos, block_w, link_w, order, motion = item
    case = {'layer': 'e2e-molecule', 'nres': nres, 'decorations': [list(d) for d in decos], 'block_w': list(block_w),
            'link_w': list(link_w), 'order': order, 'motion': list(motion)}
    ff_aa, ff_cg, mappings, mods = build_world(block_w, link_w)
    rot, trans = ROTS[motion[0]], TRANS[motion[1]]
    atoms = []        # (tag, atomname, residue, modification names)
    for r in range(nres):
        atoms.append(['a%d' % r, 'a', r, []])
        atoms.append(['b%d' % r, 'b', r, []])
    edges = [('a%d' % r, 'b%d' % r) for r in range(nres)] + [('a%d' % r, 'a%d' % (r + 1)) for r in range(nres - 1)]
    expected = {}
    p_atoms = {r: [(block_w[0], 'a%d' % r), (block_w[1], 'b%d' % r)] for r in range(nres)}
    for deco in decos:
        if deco[0] == 'LNK':
            _, i, j = deco
            atoms.append(['m%d' % i, 'm', i, ['LNK']])
            atoms.append(['n%d' % j, 'n', j, ['LNK']])
            edges += [('b%d' % i, 'm%d' % i), ('m%d' % i, 'n%d' % j), ('n%d' % j, 'b%d' % j)]
            for tag in ('b%d' % i, 'b%d' % j):
                [a for a in atoms if a[0] == tag][0][3].append('LNK')
            expected[('M', i, j)] = [(link_w[0], 'm%d' % i), (link_w[1], 'n%d' % j)]
        else:
            kind, i = deco
            letter = 't' if kind == 'TRM' else 'u'
            atoms.append(['%s%d' % (letter, i), letter, i, [kind]])
            edges.append(('b%d' % i, '%s%d' % (letter, i)))
            [a for a in atoms if a[0] == 'b%d' % i][0][3].append(kind)
            if kind == 'TRM':
                expected[('T', i)] = [(1, 't%d' % i)]
            else:
                p_atoms[i].append((1, 'u%d' % i))
    for r in range(nres):
        expected[('P', r)] = p_atoms[r]
    if order == 'reversed':
        atoms = atoms[::-1]
    elif order == 'interleaved':
        atoms = atoms[::2] + atoms[1::2]
    pos = {a[0]: move(lattice(a[0]), rot, trans) for a in atoms}
    mol = vermouth.molecule.Molecule(force_field=ff_aa)
    key_of = {}
    for idx, (tag, name, res, modnames) in enumerate(atoms):
        attrs = dict(atomname=name, resname='X', resid=res + 1, chain='A', tag=tag,
                     position=np.array(pos[tag], dtype=float))
        if modnames:
            attrs['modifications'] = [mods[m] for m in modnames]
        if name in 'mntu':
            attrs['PTM_atom'] = True
        mol.add_node(idx, **attrs)
        key_of[tag] = idx
    mol.add_edges_from((key_of[x], key_of[y]) for x, y in edges)
    try:
        with common.LogCapture() as log:
            out = do_mapping(mol, mappings, ff_cg, attribute_keep=('chain',))
            DoAverageBead().run_molecule(out)
    except Exception as err:   # pylint: disable=broad-except
        acc.case(outcome='exc')
        acc.violation('c09:e2e-exception', 'do_mapping + DoAverageBead raised %r' % (err,), case)
        return
    problems = judge(out, mol, expected, pos, decos)
    acc.case(nontrivial=bool(decos) or block_w[0] != block_w[1], outcome=('mol', len(out), len(decos), len(log.messages())))
    for sig, desc in problems[:1]:
        acc.violation(sig, desc, case)


def judge(out, mol, expected, pos, decos=()):
    """expected: particle id -> [(weight, atom tag)]; particle ids ('P', residue) / ('T', residue) / ('M', i, j)."""
    import numpy as np
    problems = []
    found = {}
    for key, node in out.nodes(data=True):
        cons_res = sorted({int(mol.nodes[m]['tag'][1:]) for m in node.get('graph', mol.subgraph([])).nodes} or [-1])
        name = node.get('atomname')
        ident = (name,) + tuple(cons_res)
        if ident in found:
            problems.append(('c09:e2e-duplicate-particle', 'two particles %r' % (ident,)))
            return problems
        found[ident] = node
    if set(found) != set(expected):
        problems.append(('c09:e2e-particles', 'particles %r, the declaration gives %r' % (sorted(found, key=str), sorted(expected, key=str))))
        return problems
    for ident, pairs in sorted(expected.items(), key=str):
        want = wmean([(w, pos[tag]) for w, tag in pairs])
        got = found[ident].get('position')
        if want is None:
            if got is not None and not np.all(np.isnan(got)):
                problems.append(('c09:e2e-nan', 'particle %r has position %r although its weights sum to zero' % (ident, got)))
            continue
        if got is None or np.any(np.isnan(got)) or max(abs(float(g) - float(w)) for g, w in zip(got, want)) > 1e-9:
            problems.append(('c09:e2e-not-at-weighted-mean', 'particle %r is at %r; the declared constituents %r put it at %r' % (
                ident, None if got is None else [round(float(x), 6) for x in got], pairs, [float(x) for x in want])))
            break
    return problems


def molecule_items(tier):
    for nres in (2, 3):
        for decos in decorations(nres):
            weights = [(BLOCK_WEIGHTS[0], LINK_WEIGHTS[0])]
            if tier != 'quick' or len(decos) <= 1:
                weights = list(itertools.product(BLOCK_WEIGHTS, LINK_WEIGHTS if any(d[0] == 'LNK' for d in decos) else LINK_WEIGHTS[:1]))
            for block_w, link_w in weights:
                for order in ('forward', 'reversed', 'interleaved'):
                    motions = MOTIONS if (tier != 'quick' or (block_w, link_w) == (BLOCK_WEIGHTS[0], LINK_WEIGHTS[0])) else MOTIONS[:1]
                    for motion in motions:
                        yield nres, decos, block_w, link_w, order, motion


# ----------------------------------------------------------------------------- mapping file text, sequences of rounds

FILE_LINES = [('C1', ['B1']), ('C2', ['B1', 'B2']), ('O1', ['B2']), ('X1', ['B2', 'B2', 'B1'])]
BONDS = [('C1', 'C2'), ('C2', 'O1'), ('O1', 'X1'), ('C1', 'X1')]
BLOCK_VARIANTS = [('C1', 'C2', 'O1'), ('C1', 'C2', 'O1', 'X1'), ('X1', 'O1', 'C2', 'C1'), ('C2', 'C1', 'O1'), ('O1', 'X1', 'C1', 'C2')]
FILE_POS = {'C1': (0, 0, 0), 'C2': (3, 1, -2), 'O1': (-1, 4, 2), 'X1': (5, -3, 1)}


def file_text():
    lines = ['[ molecule ]', 'LIG', '', '[ from ]', 'aa', '', '[ to ]', 'cg', '', '[ atoms ]']
    for idx, (atom, beads) in enumerate(FILE_LINES, 1):
        lines.append('%d %s %s' % (idx, atom, ' '.join(beads)))
    return lines


def file_round(variant, acc, case):
    import numpy as np
    import vermouth
    from vermouth.forcefield import ForceField
    from vermouth.molecule import Block
    from vermouth.map_input import read_backmapping_file
    from vermouth.processors.do_mapping import do_mapping
    from vermouth.processors.average_beads import DoAverageBead
    ff_aa, ff_cg = ForceField(name='aa'), ForceField(name='cg')
    block_aa = Block(force_field=ff_aa, name='LIG')
    for idx, name in enumerate(variant):
        block_aa.add_node(idx, atomname=name, resname='LIG', resid=1)
    keys = {name: idx for idx, name in enumerate(variant)}
    block_aa.add_edges_from((keys[x], keys[y]) for x, y in BONDS if x in keys and y in keys)
    ff_aa.blocks['LIG'] = block_aa
    block_cg = Block(force_field=ff_cg, name='LIG')
    block_cg.add_node(0, atomname='B1', resname='LIG', resid=1)
    block_cg.add_node(1, atomname='B2', resname='LIG', resid=1)
    block_cg.add_edge(0, 1)
    ff_cg.blocks['LIG'] = block_cg
    try:
        with common.LogCapture():
            mappings = read_backmapping_file(file_text(), {'aa': ff_aa, 'cg': ff_cg})
            mappings = {f: {t: {(n,) if not isinstance(n, tuple) else n: m for n, m in names.items()} for t, names in tos.items()}
                        for f, tos in mappings.items()}
            mol = vermouth.molecule.Molecule(force_field=ff_aa)
            for idx, name in enumerate(reversed(variant)):
                mol.add_node(idx, atomname=name, resname='LIG', resid=1, chain='A', tag=name + '0',
                             position=np.array(FILE_POS[name], dtype=float))
            mkeys = {name: idx for idx, name in enumerate(reversed(variant))}
            mol.add_edges_from((mkeys[x], mkeys[y]) for x, y in BONDS if x in mkeys and y in mkeys)
            out = do_mapping(mol, mappings, ff_cg, attribute_keep=('chain',))
            DoAverageBead().run_molecule(out)
    except Exception as err:   # pylint: disable=broad-except
        acc.violation('c09:e2e-file-exception', 'reading the mapping file and mapping raised %r' % (err,), case)
        return False
    # from the text: an atom contributes to each particle on its line, in proportion to how often it is listed
    sums = {}
    for atom, beads in FILE_LINES:
        if atom not in variant:
            continue
        for bead in set(beads):
            sums.setdefault(bead, []).append((Fraction(beads.count(bead), len(beads)), atom))
    problems = []
    got = {node['atomname']: node.get('position') for _, node in out.nodes(data=True)}
    if sorted(got) != sorted(sums):
        problems.append(('c09:e2e-file-particles', 'particles %r, the file declares %r' % (sorted(got), sorted(sums))))
    else:
        for bead, pairs in sorted(sums.items()):
            want = wmean([(w, FILE_POS[a]) for w, a in pairs])
            have = got[bead]
            if have is None or np.any(np.isnan(have)) or max(abs(float(g) - float(w)) for g, w in zip(have, want)) > 1e-9:
                problems.append(('c09:e2e-file-not-at-weighted-mean', 'block atoms %r: particle %s is at %r; the lines of the mapping file '
                                 'put it at %r (constituents %r)' % (list(variant), bead, None if have is None else [round(float(x), 6) for x in have],
                                                                    [float(x) for x in want], [(str(w), a) for w, a in pairs])))
                break
    for sig, desc in problems[:1]:
        acc.violation(sig, desc, case)
    return not problems


NEW_STYLE = [('C1', 'B1', None), ('C2', 'B1', 2), ('C2', 'B2', None), ('O1', 'B2', 0), ('X1', 'B2', 3)]


def new_style_round(variant, acc, case):
    """The same ligand declared in a new-style .mapping text with explicit weights (2, 0, 3 and the implicit 1)."""
    import numpy as np
    import vermouth
    from vermouth.forcefield import ForceField
    from vermouth.molecule import Block
    from vermouth.map_input import read_mapping_file
    from vermouth.processors.do_mapping import do_mapping
    from vermouth.processors.average_beads import DoAverageBead
    ff_aa, ff_cg = ForceField(name='aa'), ForceField(name='cg')
    block_aa = Block(force_field=ff_aa, name='LIG')
    for name in variant:
        block_aa.add_node(name, atomname=name, resname='LIG', resid=1)
    block_aa.add_edges_from((x, y) for x, y in BONDS if x in variant and y in variant)
    ff_aa.blocks['LIG'] = block_aa
    block_cg = Block(force_field=ff_cg, name='LIG')
    block_cg.add_node('B1', atomname='B1', resname='LIG', resid=1)
    block_cg.add_node('B2', atomname='B2', resname='LIG', resid=1)
    block_cg.add_edge('B1', 'B2')
    ff_cg.blocks['LIG'] = block_cg
    lines = ['[ block ]', '[ from ]', 'aa', '[ to ]', 'cg', '[ from blocks ]', 'LIG', '[ to blocks ]', 'LIG', '[ mapping ]']
    for atom, bead, weight in NEW_STYLE:
        lines.append('%s %s%s' % (atom, bead, '' if weight is None else ' %d' % weight))
    try:
        with common.LogCapture():
            mappings = read_mapping_file(lines, {'aa': ff_aa, 'cg': ff_cg})
            mol = vermouth.molecule.Molecule(force_field=ff_aa)
            for idx, name in enumerate(reversed(variant)):
                mol.add_node(idx, atomname=name, resname='LIG', resid=1, chain='A', position=np.array(FILE_POS[name], dtype=float))
            mkeys = {name: idx for idx, name in enumerate(reversed(variant))}
            mol.add_edges_from((mkeys[x], mkeys[y]) for x, y in BONDS if x in mkeys and y in mkeys)
            out = do_mapping(mol, mappings, ff_cg, attribute_keep=('chain',))
            DoAverageBead().run_molecule(out)
    except Exception as err:   # pylint: disable=broad-except
        acc.violation('c09:e2e-file-exception', 'reading the new-style mapping text and mapping raised %r' % (err,), case)
        return False
    sums = {}
    for atom, bead, weight in NEW_STYLE:
        sums.setdefault(bead, []).append((Fraction(1 if weight is None else weight), atom))
    got = {node['atomname']: node.get('position') for _, node in out.nodes(data=True)}
    for bead, pairs in sorted(sums.items()):
        want = wmean([(w, FILE_POS[a]) for w, a in pairs])
        have = got.get(bead)
        if have is None or np.any(np.isnan(have)) or max(abs(float(g) - float(w)) for g, w in zip(have, want)) > 1e-9:
            acc.violation('c09:e2e-file-not-at-weighted-mean', 'new-style mapping text: particle %s is at %r; the weights written in the file '
                          '(%r) put it at %r' % (bead, None if have is None else [round(float(x), 6) for x in have],
                                                 [(str(w), a) for w, a in pairs], [float(x) for x in want]), case)
            return False
    return True


def file_case(seq, acc):
    if seq and seq[0] == 'new-style':
        for step, variant in enumerate(seq[1:]):
            case = {'layer': 'e2e-file', 'sequence': ['new-style'] + [list(v) for v in seq[1:]], 'step': step}
            ok = new_style_round(variant, acc, case)
            acc.case(nontrivial=True, outcome=('newstyle', step, tuple(variant), ok))
            if not ok:
                return
        return
    for step, variant in enumerate(seq):
        case = {'layer': 'e2e-file', 'sequence': [list(v) for v in seq], 'step': step}
        ok = file_round(variant, acc, case)
        acc.case(nontrivial=True, outcome=('file', step, tuple(variant), ok))
        if not ok:
            sig, desc, cs = acc.violations[-1]
            acc.violations[-1] = (sig, 'round %d of %d in one process: %s' % (step + 1, len(seq), desc), cs)
            return


# ----------------------------------------------------------------------------- rebuilt atoms never contribute

_REAL = {}


def real_world():
    """Shipped charmm -> martini3001 data (inputs of the layer, parsed once per process)."""
    if not _REAL:
        import os
        import vermouth
        import vermouth.forcefield
        from vermouth.map_input import read_mapping_directory
        ffs = vermouth.forcefield.find_force_fields(os.path.join(vermouth.DATA_PATH, 'force_fields'))
        _REAL['ffs'] = ffs
        _REAL['maps'] = read_mapping_directory(os.path.join(vermouth.DATA_PATH, 'mappings'), ffs)
    return _REAL['ffs'], _REAL['maps']


PRESENT = {
    'ALA': [('CA',), ('N',), ('CB',), ('N', 'CA', 'C', 'O'), ('CA', 'CB'), 'heavy', 'all'],
    'LYS': [('CA',), ('NZ',), ('CB',), ('N', 'CA', 'C', 'O'), ('CA', 'CB', 'CG'), ('CA', 'NZ'), 'heavy', 'all'],
    'SER': [('CA',), ('OG',), ('N', 'CA', 'C', 'O'), ('CB', 'OG'), 'heavy', 'all'],
}


def pipeline_case(item, acc):
    """RepairGraph -> DoMapping -> DoAverageBead on a dipeptide of which one residue has only SOME of its atoms in the
    input (down to a single atom): the atoms RepairGraph adds have no coordinates, so every particle must sit at the
    weighted (mapping weight x mass) mean of those of its constituents that were in the input, and be NaN when none was."""
    import numpy as np
    import vermouth
    from vermouth.processors import RepairGraph, DoMapping, DoAverageBead
    resname, present, partial_first = item[:3]
    # exotic: the CA atom of the complete glycine carries an element AttachMass has no mass for (documented: 30 amu then)
    exotic = bool(item[3]) if len(item) > 3 else False
    case = {'layer': 'e2e-pipeline', 'resname': resname, 'present': list(present) if not isinstance(present, str) else present,
            'partial_first': partial_first, 'exotic': exotic}
    ffs, maps = real_world()
    ff = ffs['charmm']
    system = vermouth.System(force_field=ff)
    mol = vermouth.molecule.Molecule(force_field=ff)
    table = {}
    key = 0
    residues = [(resname, present), ('GLY', 'all')]
    if not partial_first:
        residues.reverse()
    first_of = {}
    for ridx, (name, keep) in enumerate(residues):
        block = ff.blocks[name]
        names = [block.nodes[n]['atomname'] for n in block.nodes]
        if keep == 'heavy':
            names = [n for n in names if block.nodes[n if n in block.nodes else n].get('element', n[0]) != 'H' and not n.startswith('H')]
        elif keep != 'all':
            names = [n for n in names if n in keep]
        here = {}
        for j, atomname in enumerate(names):
            pos = (3 * ridx + (j * 7) % 5, (j * 3) % 7 - ridx, (j * 5) % 11)
            element = block.nodes[atomname].get('element', atomname[0]) if atomname in block.nodes else atomname[0]
            if exotic and name == 'GLY' and keep == 'all' and atomname == 'CA':
                element = 'Se'
            mol.add_node(key, atomname=atomname, resname=name, resid=ridx + 1, chain='A', element=element,
                         position=np.array(pos, dtype=float) / 10.0)
            table[key] = tuple(Fraction(p, 10) for p in pos)
            here[atomname] = key
            key += 1
        for a, b in block.edges:
            na, nb = block.nodes[a]['atomname'], block.nodes[b]['atomname']
            if na in here and nb in here:
                mol.add_edge(here[na], here[nb])
        first_of[ridx] = here
    if 'C' in first_of[0] and 'N' in first_of[1]:
        mol.add_edge(first_of[0]['C'], first_of[1]['N'])
    system.molecules.append(mol)
    n_input = key
    try:
        with common.LogCapture():
            RepairGraph().run_system(system)
            repaired = system.molecules[0]
            rebuilt_with_position = sorted((repaired.nodes[k]['resname'], repaired.nodes[k]['atomname']) for k in repaired.nodes
                                           if k not in table and repaired.nodes[k].get('position') is not None)
            vermouth.AttachMass(attribute='mass').run_system(system)
            DoMapping(maps, to_ff=ffs['martini3001'], attribute_keep=('chain',), attribute_must=('resname',),
                      attribute_stash=('resid',)).run_system(system)
            DoAverageBead(ignore_missing_graphs=True).run_system(system)
    except Exception as err:   # pylint: disable=broad-except
        acc.case(outcome='exc')
        acc.violation('c09:e2e-pipeline-exception', 'the pipeline raised %r' % (err,), case)
        return
    problems = []
    n_nan = 0
    for out in system.molecules:
        for bead_key, bead in out.nodes(data=True):
            if 'graph' not in bead:
                continue
            pairs = []
            for atom_key, atom in bead['graph'].nodes(data=True):
                if atom_key in table:
                    weight = Fraction(bead.get('mapping_weights', {}).get(atom_key, 1)).limit_denominator(10 ** 6) * \
                        Fraction(MASS.get(atom.get('element'), 30))      # the documented masses, not the attribute the program attached
                    pairs.append((weight, table[atom_key]))
            want = wmean(pairs) if pairs else None
            got = bead.get('position')
            label = '%s%s:%s' % (bead.get('resname'), bead.get('resid'), bead.get('atomname'))
            if want is None:
                n_nan += 1
                if got is not None and not np.all(np.isnan(got)):
                    problems.append(('c09:e2e-position-from-rebuilt-atoms', 'particle %s has position %r although none of its constituents %r '
                                     'was in the input (atoms rebuilt with a position: %r)' % (
                                         label, [round(float(x), 4) for x in got], sorted(a['atomname'] for _, a in bead['graph'].nodes(data=True)),
                                         rebuilt_with_position[:6])))
                    break
            elif got is None or np.any(np.isnan(got)) or max(abs(float(g) - float(w)) for g, w in zip(got, want)) > 1e-6:
                problems.append(('c09:e2e-pipeline-not-at-weighted-mean', 'particle %s is at %r; its constituents present in the input put it at %r '
                                 '(atoms rebuilt with a position: %r)' % (label, None if got is None else [round(float(x), 4) for x in got],
                                                                          [round(float(x), 4) for x in want], rebuilt_with_position[:6])))
                break
    acc.case(nontrivial=present != 'all', outcome=('pipe', resname, n_nan, len(problems)))
    for sig, desc in problems[:1]:
        acc.violation(sig, desc, case)


def pipeline_items():
    for resname, presents in PRESENT.items():
        for present in presents:
            for partial_first in (True, False):
                yield resname, present, partial_first
                yield resname, present, partial_first, True


# ----------------------------------------------------------------------------- through bin/martinize2

MASS = {'H': 1, 'C': 12, 'N': 14, 'O': 16, 'S': 32, 'P': 31}      # the documented element masses of AttachMass
CLI_FRAGMENTS = ['bta15-18', 'bta19-22', 'bta27-30', 'bta11-14', 'ala5']
CLI_OPTIONS = {'default': [], 'elastic': ['-elastic'], 'martini22': ['-ff', 'martini22'], 'sep-posres': ['-sep', '-p', 'backbone'],
               'user-map': ['-map-dir', 'user_map'],
               'write-repair': ['-write-repair', 'repair.pdb'], 'write-canon-graph': ['-write-canon', 'canon.pdb', '-write-graph', 'graph.pdb']}


USER_MAP_ALA = '''[ molecule ]
ALA
[from]
charmm
[to]
martini3001
[ martini ]
BB SC1
[ mapping ]
charmm27 charmm36
[ atoms ]
    1     N    !BB
    2    HN    !BB
    3    CA    BB BB BB SC1
    4    HA    !BB
    5    CB    SC1
    6   HB1    !SC1
    7   HB2    !SC1
    8   HB3    !SC1
    9     C    BB
   10     O    !BB
'''
USER_ALA_TABLE = {'N': {'BB': 0.0}, 'CA': {'BB': 0.75, 'SC1': 0.25}, 'CB': {'SC1': 1.0}, 'C': {'BB': 1.0}, 'O': {'BB': 0.0}}


def shipped_weights(to_ff, resname):
    """atom name -> {bead: weight} read from the shipped Backward-style mapping file with a parser of my own: a bead listed k
    times out of n gets k/n, a '!' entry gets 0."""
    import glob
    import os
    base = os.path.join(common.REPO, 'vermouth', 'data', 'mappings')
    for path in sorted(glob.glob(os.path.join(base, '**', '%s.charmm36*.map' % resname.lower()), recursive=True) +
                       glob.glob(os.path.join(base, '**', '%s.*map' % resname.lower()), recursive=True)):
        section, target, source, table = None, [], [], {}
        for raw in open(path):
            line = raw.split(';', 1)[0].strip()
            if not line:
                continue
            if line.startswith('['):
                section = line.strip('[] ').lower()
                continue
            if section == 'to':
                target += line.split()
            elif section == 'from':
                source += line.split()
            elif section == 'atoms':
                tokens = line.split()
                beads = tokens[2:]
                real = [b for b in beads if not b.startswith('!')]
                table[tokens[1]] = {b: real.count(b) / len(real) for b in set(real)}
        if to_ff in target and 'charmm' in source:
            return table
    return None


def cli_case(item, acc):
    """Heavy-atom input through the real program: every particle of an inner residue must sit at the mean of the atoms the
    shipped mapping assigns to it, weighted by mapping weight x element mass (the force fields set center_weight "mass")."""
    import os
    import shutil
    import tempfile
    from mc import cli, readers
    from props import c11
    name, opts, motion = item
    case = {'layer': 'e2e-cli', 'input': name, 'options': opts, 'motion': list(motion)}
    to_ff = 'martini22' if opts == 'martini22' else 'martini3001'
    atoms = [dict(a) for a in c11.load_atoms(name) if a['element'] != 'H']
    rot, trans = ROTS[motion[0]], TRANS[motion[1]]
    for atom in atoms:
        moved = move(atom['xyz'], rot, tuple(t / 10.0 for t in trans))
        atom['xyz'] = tuple(round(v, 3) for v in moved)
    base = tempfile.mkdtemp(prefix='verif_c09cli_', dir='/dev/shm' if os.path.isdir('/dev/shm') else None)
    try:
        with open(os.path.join(base, 'in.pdb'), 'w') as handle:
            handle.write(c11.render_pdb(atoms))
        if opts == 'user-map':
            # a mapping given with -map-dir re-defines ALA (other weights than the shipped file): the user's declaration counts
            os.makedirs(os.path.join(base, 'user_map'))
            with open(os.path.join(base, 'user_map', 'ala.charmm36.map'), 'w') as handle:
                handle.write(USER_MAP_ALA)
        res = cli.run_inprocess(['-f', 'in.pdb', '-x', 'cg.pdb', '-o', 'topol.top', '-maxwarn', '100'] + CLI_OPTIONS[opts], base)
        if res['exit'] != 0:
            acc.case(outcome=('cli-exit', res['exit']))
            acc.violation('c09:e2e-cli-run-failed', 'martinize2 %r on %s exits %r\n%s' % (CLI_OPTIONS[opts], name, res['exit'], res['stderr'][-400:]), case)
            return
        beads = readers.read_pdb(open(os.path.join(base, 'cg.pdb')).read())['atoms']
    finally:
        shutil.rmtree(base, ignore_errors=True)
    residues = []
    for atom in atoms:
        if not residues or residues[-1][0] != atom['res']:
            residues.append((atom['res'], atom['line'][17:20].strip(), []))
        residues[-1][2].append(atom)
    problems = []
    checked = 0
    for ridx, (res, resname, members) in list(enumerate(residues))[1:-1]:          # inner residues: no terminal modification
        table = USER_ALA_TABLE if (opts == 'user-map' and resname == 'ALA') else shipped_weights(to_ff, resname)
        if table is None or any(atom['name'].strip() not in table for atom in members):
            continue      # input atom names that are not the force field's own (ILE CD1): which table line applies is RepairGraph's business (C04)
        if not any(int(b['resid']) == ridx + 1 and b['resname'].strip() == resname for b in beads):
            continue      # the residue came out under another name (protonation variants of HIS): another table applies
        sums = {}
        for atom in members:
            aname = atom['name'].strip()
            for bead, weight in table.get(aname, {}).items():
                w = weight * MASS.get(atom['element'], 30)
                entry = sums.setdefault(bead, [0.0, [0.0, 0.0, 0.0]])
                entry[0] += w
                for c in range(3):
                    entry[1][c] += w * atom['xyz'][c]
        for bead, (total, vec) in sorted(sums.items()):
            if total == 0:
                continue
            want = [v / total for v in vec]
            got = [b for b in beads if int(b['resid']) == ridx + 1 and b['atomname'].strip() == bead and b['resname'].strip() == resname]
            if len(got) != 1:
                problems.append(('c09:e2e-cli-particle-missing', 'residue %s%d: %d particles named %s in the output' % (resname, res[1], len(got), bead)))
                break
            have = [float(got[0]['x']), float(got[0]['y']), float(got[0]['z'])]
            checked += 1
            if not all(abs(h - w) <= 2.1e-3 for h, w in zip(have, want)):      # written so that NaN fails
                problems.append(('c09:e2e-cli-not-at-weighted-mean', '%s of residue %s%d is written at %r (A); the heavy atoms the shipped mapping assigns to it, '
                                 'weighted by mapping weight x element mass, put it at %r' % (bead, resname, res[1], have, [round(w, 3) for w in want])))
                break
        if problems:
            break
    acc.case(nontrivial=checked > 0, outcome=('clipos', name, opts, checked, len(problems)))
    for sig, desc in problems[:1]:
        acc.violation(sig, desc, case)


def cli_items(tier):
    motions = [(0, 0), (7, 1)] if tier == 'quick' else [(0, 0), (7, 1), (13, 2), (20, 1)]
    for name in CLI_FRAGMENTS:
        for opts in CLI_OPTIONS:
            for motion in motions:
                yield name, opts, motion


def work(task):
    common.bind_repo()
    kind, items = task
    acc = Acc()
    for item in items:
        if kind == 'cli':
            cli_case(item, acc)
            continue
        if kind == 'file':
            file_case(item, acc)
        elif kind == 'pipeline':
            pipeline_case(item, acc)
        else:
            molecule_case(item, acc)
    return acc


def run_layer(ctx):
    items = list(molecule_items(ctx.tier))
    acc = Acc()
    for part in common.pmap(work, [('molecule', chunk) for chunk in common.chunked(items, max(1, len(items) // 48))]):
        acc += part
    ctx.layer('declaration-to-position', acc)
    full = [v for v in BLOCK_VARIANTS if len(v) == 4]
    seqs = [(v,) for v in BLOCK_VARIANTS] + list(itertools.permutations(BLOCK_VARIANTS, 2))
    seqs += [('new-style', v) for v in full] + [('new-style', a, b) for a, b in itertools.permutations(full, 2)]
    if not ctx.quick:
        seqs += list(itertools.permutations(BLOCK_VARIANTS, 3))
    acc = Acc()
    # every sequence in its own newly forked process
    for part in common.pmap(work, [('file', [seq]) for seq in seqs], fresh=True):
        acc += part
    ctx.layer('mapping-file-rounds', acc)
    items = list(pipeline_items())
    acc = Acc()
    for part in common.pmap(work, [('pipeline', chunk) for chunk in common.chunked(items, 3)]):
        acc += part
    ctx.layer('rebuilt-atoms-never-contribute', acc)
    items = list(cli_items(ctx.tier))
    acc = Acc()
    for part in common.pmap(work, [('cli', chunk) for chunk in common.chunked(items, 3)]):
        acc += part
    ctx.layer('positions-written-by-martinize2', acc)


def replay(case):
    common.bind_repo()
    acc = Acc()
    if case['layer'] == 'e2e-cli':
        cli_case((case['input'], case['options'], tuple(case['motion'])), acc)
    elif case['layer'] == 'e2e-pipeline':
        pipeline_case((case['resname'], tuple(case['present']) if isinstance(case['present'], list) else case['present'],
                       case['partial_first'], case.get('exotic', False)), acc)
    elif case['layer'] == 'e2e-file':
        file_case([v if isinstance(v, str) else tuple(v) for v in case['sequence']], acc)
    else:
        molecule_case((case['nres'], tuple(tuple(d) for d in case['decorations']), tuple(case['block_w']), tuple(case['link_w']),
                       case['order'], tuple(case['motion'])), acc)
    return [(s, d) for s, d, _ in acc.violations]
