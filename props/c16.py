"""
C16 — structure files round-trip: what is written is read back.

Layer "fields": product of field-boundary menus (residue numbers around the column widths,
         names of length 1..6, chain present/absent, coordinates across the representable range
         and beyond) on small two-molecule systems, written as PDB and GRO and read back.
Layer "counts": atom counts 1, 2, 9998..10001 (thorough: 9997..10001 with every bond pattern, 99996..99998 - the last systems that fit five-digit serials - with five) arranged as 1, 2 or 3
         molecules x bond patterns (none, path, stars of degree 1..9, bonds straddling serial
         9999/10000, first-last), PDB CONECT/TER round trip.
Oracle : read-back record i equals written record i on every field, each field judged by its OWN
         column rule (a value that does not fit may come back as a width-long prefix or suffix of
         its text; everything else must be exact), so a shifted column is a mismatch even when
         another field overflowed.  For systems within five-digit numbering: same edge set and
         same division into molecules.
"""
import itertools
import os
import shutil
import tempfile

from mc import common
from mc.common import Acc

RULE = ("fields: full products of the stated menus; counts: every (atom count, split, bond pattern); distinct = distinct "
        "tuples; non-trivial = at least one field at/over its column width, or an atom serial >= 9999")
ASSUMPTIONS = ["names contain no blanks; residue name 'SOL' (excluded by the reader's default) is not used",
               "an overflowing field may come back as any width-long prefix or suffix of its text",
               "GRO carries no chain, bonds or molecule division: only order, names, residue number, coordinates are compared"]

RESIDS = [-1, 0, 1, 9999, 10000, 99999, 100000]
COORDS = [0.0, 0.00005, -0.00005, 0.0005, 99.99994, -99.99994, 999.99994, -100.0, 1000.0, 1.2345]
NAME6 = 'ABCDEF'
RESN6 = 'RSTUVW'


def build_system(mol_sizes, attrs_of, edges):
    """attrs_of(global_index) -> dict; edges: list of (gi, gj) global indices inside one molecule."""
    import numpy as np
    import vermouth
    system = vermouth.System()
    offset = 0
    where = {}
    for m, size in enumerate(mol_sizes):
        mol = vermouth.molecule.Molecule()
        for local in range(size):
            gi = offset + local
            attrs = attrs_of(gi)
            attrs['position'] = np.array(attrs['position'], dtype=float)
            mol.add_node(local, **attrs)
            where[gi] = (m, local)
        offset += size
        system.add_molecule(mol)
    for gi, gj in edges:
        (m1, a), (m2, b) = where[gi], where[gj]
        if m1 != m2:
            raise common.HarnessError('edge across molecules')
        system.molecules[m1].add_edge(a, b)
    return system, where


def field_ok_str(written, read, width):
    if len(written) <= width:
        return read == written
    return read in (written[:width].strip(), written[-width:].strip())


def field_ok_int(written, read, width):
    text = '%d' % written
    if len(text) <= width:
        return read == written
    cands = set()
    for piece in (text[:width], text[-width:]):
        try:
            cands.add(int(piece))
        except ValueError:
            pass
    return read in cands


def field_ok_coord(written, read, width, decimals, scale):
    """written in nm; the file stores written*scale with `decimals` decimals in `width` columns."""
    value = written * scale
    text = '%.*f' % (decimals, value)
    if len(text) <= width:
        return abs(read * scale - value) <= 0.5 * 10 ** -decimals + 1e-9 * max(1.0, abs(value))
    cands = []
    for piece in (text[:width], text[-width:]):
        try:
            cands.append(float(piece))
        except ValueError:
            pass
    return any(abs(read * scale - c) <= 1e-9 * max(1.0, abs(c)) for c in cands)


def compare_atoms(fmt, written, read, problems):
    """written/read: lists of attribute dicts in file order."""
    if len(written) != len(read):
        problems.append(('%s:atom-count' % fmt, '%d atoms written, %d read back' % (len(written), len(read))))
        return
    widths = {'pdb': {'atomname': 4, 'resname': 3, 'resid': 4, 'chain': 1, 'coord': (8, 3, 10.0)},
              'gro': {'atomname': 5, 'resname': 5, 'resid': 5, 'chain': None, 'coord': (8, 3, 1.0)}}[fmt]
    for idx, (w, r) in enumerate(zip(written, read)):
        bad = []
        if not field_ok_str(w['atomname'], r.get('atomname'), widths['atomname']):
            bad.append('atomname')
        if not field_ok_str(w['resname'], r.get('resname'), widths['resname']):
            bad.append('resname')
        if not field_ok_int(w['resid'], r.get('resid'), widths['resid']):
            bad.append('resid')
        if widths['chain'] and not field_ok_str(w.get('chain') or '', r.get('chain'), 1):
            bad.append('chain')
        cw, cd, cs = widths['coord']
        for axis in range(3):
            if not field_ok_coord(float(w['position'][axis]), float(r['position'][axis]), cw, cd, cs):
                bad.append('xyz'[axis])
        if bad:
            overflow = [f for f in ('atomname', 'resname') if len(w[f]) > widths[f]]
            if len('%d' % w['resid']) > widths['resid']:
                overflow.append('resid')
            for axis in range(3):
                if len('%.*f' % (cd, float(w['position'][axis]) * cs)) > cw:
                    overflow.append('xyz'[axis])
            kind = 'field-corrupted-by-overflow' if [b for b in bad if b not in overflow] and overflow else 'field-mismatch'
            problems.append(('%s:%s' % (fmt, kind),
                             'record %d: fields %r differ: written %r, read %r (overflowing fields: %r)' % (
                                 idx, bad, {k: (list(v) if k == 'position' else v) for k, v in w.items()},
                                 {k: (list(r[k]) if k == 'position' else r.get(k)) for k in ('atomname', 'resname', 'resid', 'chain', 'position')},
                                 overflow)))
            return


def roundtrip(system, base, fmt):
    from vermouth.pdb.pdb import write_pdb, read_pdb
    from vermouth.gmx.gro import write_gro, read_gro
    path = os.path.join(base, 'rt.%s' % fmt)
    if fmt == 'pdb':
        write_pdb(system, path, defer_writing=False)
        mols = read_pdb(path)
    else:
        write_gro(system, path, defer_writing=False)
        mols = [read_gro(path)]
    os.remove(path)
    return mols


def check_fields(case, acc, base):
    """case: dict(fmt, resid, alen, rlen, chain, xyz)"""
    fmt = case['fmt']

    def attrs_of(gi):
        return {'atomname': NAME6[:case['alen']], 'resname': RESN6[:case['rlen']], 'resid': case['resid'] + (gi // 2 if case.get('vary') else 0),
                'chain': case['chain'], 'position': [case['xyz'][0], case['xyz'][1] + 0.1 * gi, case['xyz'][2]]}
    sizes = [3, 2]
    system, _ = build_system(sizes, attrs_of, [(0, 1), (1, 2), (3, 4)])
    written = [dict(mol.nodes[k]) for mol in system.molecules for k in mol.nodes]
    problems = []
    try:
        mols = roundtrip(system, base, fmt)
    except Exception as err:   # pylint: disable=broad-except
        acc.case(outcome='exc')
        acc.violation('%s:exception' % fmt, 'round trip raised %r' % (err,), dict(case, layer='fields'))
        return
    read = [dict(mol.nodes[k]) for mol in mols for k in mol.nodes]
    compare_atoms(fmt, written, read, problems)
    if fmt == 'pdb' and not problems:
        if [len(m) for m in mols] != sizes:
            problems.append(('pdb:molecule-division', 'molecule sizes read %r, written %r' % ([len(m) for m in mols], sizes)))
        else:
            got = sorted(tuple(sorted(e)) for m in mols for e in m.edges)
            if [sorted(tuple(sorted(e)) for e in m.edges) for m in mols] != [[(0, 1), (1, 2)], [(0, 1)]]:
                problems.append(('pdb:bonds', 'bonds read back %r' % (got,)))
    if not problems:
        # history: the same system object is written again after its atom ids were set in place (reversed order)
        for mol in system.molecules:
            n = len(mol)
            for pos, key in enumerate(list(mol.nodes)):
                mol.nodes[key]['atomid'] = n - pos
        written2 = [dict(mol.nodes[k]) for mol in system.molecules for k in sorted(mol.nodes, key=lambda k: mol.nodes[k]['atomid'])]
        try:
            mols2 = roundtrip(system, base, fmt)
            read2 = [dict(mol.nodes[k]) for mol in mols2 for k in mol.nodes]
            compare_atoms(fmt, written2, read2, problems)
            if problems:
                problems[-1] = (problems[-1][0] + '(rewrite)', 'second write after the atom ids were changed in place: ' + problems[-1][1])
        except Exception as err:   # pylint: disable=broad-except
            problems.append(('%s:exception(rewrite)' % fmt, 'second write raised %r' % (err,)))
    if not problems:
        # history, continued: the atom ids are now numbered from 0 in node order (a legitimate id that is falsy)
        for mol in system.molecules:
            for pos, key in enumerate(list(mol.nodes)):
                mol.nodes[key]['atomid'] = pos
        written3 = [dict(mol.nodes[k]) for mol in system.molecules for k in mol.nodes]
        try:
            mols3 = roundtrip(system, base, fmt)
            read3 = [dict(mol.nodes[k]) for mol in mols3 for k in mol.nodes]
            compare_atoms(fmt, written3, read3, problems)
            if problems:
                problems[-1] = (problems[-1][0] + '(ids-from-0)', 'atom ids numbered from 0: ' + problems[-1][1])
        except Exception as err:   # pylint: disable=broad-except
            problems.append(('%s:exception(ids-from-0)' % fmt, 'write with atom ids from 0 raised %r' % (err,)))
    over = (case['alen'] > (4 if fmt == 'pdb' else 5) or case['rlen'] > (3 if fmt == 'pdb' else 5)
            or len(str(case['resid'])) >= (4 if fmt == 'pdb' else 5) or any(abs(c) >= 99 for c in case['xyz']))
    acc.case(nontrivial=over, outcome=(fmt, tuple(p[0] for p in problems), over),
             sample=dict(case, layer='fields') if acc.states % 499 == 0 else None)
    for sig, desc in problems[:1]:
        acc.violation(sig, desc, dict(case, layer='fields'))


def bond_patterns(n, sizes):
    """name -> list of global (i, j); all inside one molecule."""
    bounds = []
    start = 0
    for size in sizes:
        bounds.append((start, start + size))
        start += size

    def same(i, j):
        return any(lo <= i < hi and lo <= j < hi for lo, hi in bounds)
    pats = {'none': []}
    pats['path'] = [(i, i + 1) for i in range(n - 1) if same(i, i + 1)]
    for deg in range(1, 10):
        lo, hi = bounds[-1]
        hub = lo
        partners = [hi - 1 - d for d in range(deg)]
        if all(p > hub for p in partners) and len(set(partners)) == deg:
            pats['star%d-last-mol' % deg] = [(hub, p) for p in partners]
        lo, hi = bounds[0]
        partners = [lo + 1 + d for d in range(deg)]
        if all(p < hi for p in partners):
            pats['star%d-first-mol' % deg] = [(lo, p) for p in partners]
    straddle = [(i, i + 1) for i in range(max(0, n - 6), n - 1) if same(i, i + 1)]
    if straddle:
        pats['tail-pairs'] = straddle
    lo, hi = bounds[-1]
    if hi - lo >= 2:
        pats['first-last-of-last-mol'] = [(lo, hi - 1)]
    lo, hi = bounds[0]
    if hi - lo >= 3:
        pats['first-last-of-first-mol'] = [(lo, hi - 1)]
    return pats


def splits(n):
    out = [[n]]
    if n >= 2:
        out.append([n // 2, n - n // 2])
        out.append([1, n - 1])
    if n >= 3:
        out.append([1, n - 2, 1])
        out.append([n // 3, n // 3, n - 2 * (n // 3)])
    uniq = []
    for s in out:
        if s not in uniq and all(x > 0 for x in s):
            uniq.append(s)
    return uniq


def check_counts(case, acc, base):
    n, sizes, pattern = case['n'], case['sizes'], case['pattern']
    edges = bond_patterns(n, sizes)[pattern]

    def attrs_of(gi):
        return {'atomname': 'C%d' % (gi % 7), 'resname': 'GLY', 'resid': gi // 10 + 1, 'chain': 'A',
                'position': [0.1 * (gi % 50), 0.1 * ((gi // 50) % 50), 0.1 * (gi // 2500)]}
    system, where = build_system(sizes, attrs_of, edges)
    written = [dict(mol.nodes[k]) for mol in system.molecules for k in mol.nodes]
    problems = []
    full = dict(case, layer='counts')
    try:
        mols = roundtrip(system, base, 'pdb')
    except Exception as err:   # pylint: disable=broad-except
        acc.case(outcome='exc')
        acc.violation('pdb:exception', 'round trip raised %r' % (err,), full)
        return
    read = [dict(mol.nodes[k]) for mol in mols for k in mol.nodes]
    last_serial = n + len(sizes)          # every TER takes a serial too
    if last_serial <= 99999:
        if [len(m) for m in mols] != sizes:
            problems.append(('pdb:molecule-division', 'molecule sizes read %r, written %r (bonds %s)' % ([len(m) for m in mols], sizes, pattern)))
        else:
            compare_atoms('pdb', written, read, problems)
            want = sorted(tuple(sorted((where[i], where[j]))) for i, j in edges)
            got = sorted(tuple(sorted(((m, a), (m, b)))) for m, mol in enumerate(mols) for a, b in mol.edges)
            if got != want and not problems:
                lost = [e for e in want if e not in got]
                extra = [e for e in got if e not in want]
                problems.append(('pdb:bonds', 'CONECT round trip: bonds lost %r, bonds invented %r' % (lost[:5], extra[:5])))
    else:
        compare_atoms('pdb', written, read, problems)
    acc.case(nontrivial=n >= 9998, outcome=(n, len(sizes), pattern, tuple(p[0] for p in problems)),
             sample=full if acc.states % 37 == 0 else None, transitions=2)
    for sig, desc in problems[:1]:
        acc.violation(sig, desc, full)
    # GRO: order / names / coordinates only (bond pattern is irrelevant to it)
    if pattern != 'none':
        return
    try:
        gmols = roundtrip(system, base, 'gro')
        gread = [dict(gmols[0].nodes[k]) for k in gmols[0].nodes]
        gproblems = []
        compare_atoms('gro', written, gread, gproblems)
        for sig, desc in gproblems[:1]:
            acc.violation(sig, desc, full)
    except Exception as err:   # pylint: disable=broad-except
        acc.violation('gro:exception', 'round trip raised %r' % (err,), full)


def writer_options(item, acc, base):
    """write_pdb with every combination of its switches: the atoms always come back as written; the bonds come back exactly when
    CONECT records were asked for; integer charges come back exactly when they were not omitted."""
    from vermouth.pdb.pdb import write_pdb, read_pdb
    conect, omit_charges, nan_missing = item
    case = {'layer': 'pdb-writer-options', 'conect': conect, 'omit_charges': omit_charges, 'nan_missing_pos': nan_missing}

    def attrs_of(gi):
        return {'atomname': 'C%d' % gi, 'resname': 'GLY', 'resid': gi // 2 + 1, 'chain': 'A', 'charge': [1, 0, -2, 0, 1][gi],
                'position': [0.1 * gi, 0.2, 0.3]}
    system, _ = build_system([3, 2], attrs_of, [(0, 1), (1, 2), (3, 4)])
    written = [dict(mol.nodes[k]) for mol in system.molecules for k in mol.nodes]
    path = os.path.join(base, 'opts.pdb')
    problems = []
    try:
        write_pdb(system, path, conect=conect, omit_charges=omit_charges, nan_missing_pos=nan_missing, defer_writing=False)
        mols = read_pdb(path)
        os.remove(path)
    except Exception as err:   # pylint: disable=broad-except
        acc.case(outcome='exc')
        acc.violation('pdb:options-exception', 'write_pdb(conect=%s, omit_charges=%s, nan_missing_pos=%s) round trip raised %r' % (
            conect, omit_charges, nan_missing, err), case)
        return
    read = [dict(mol.nodes[k]) for mol in mols for k in mol.nodes]
    compare_atoms('pdb', written, read, problems)
    if not problems:
        order = [node['atomname'] for node in read]
        bonds = sorted(tuple(sorted((mol.nodes[a]['atomname'], mol.nodes[b]['atomname']))) for mol in mols for a, b in mol.edges)
        want = [('C0', 'C1'), ('C1', 'C2'), ('C3', 'C4')] if conect else []
        if bonds != want:
            problems.append(('pdb:options-bonds', 'write_pdb(conect=%s, omit_charges=%s): bonds read back %r, written %r' % (
                conect, omit_charges, bonds, want)))
        charges = [int(node.get('charge') or 0) for node in read]
        want_charges = [0] * 5 if omit_charges else [1, 0, -2, 0, 1]
        if charges != want_charges and not problems:
            problems.append(('pdb:options-charges', 'write_pdb(omit_charges=%s): charges read back %r, expected %r (atoms %r)' % (
                omit_charges, charges, want_charges, order)))
    acc.case(nontrivial=True, outcome=('opts', conect, omit_charges, nan_missing, tuple(p[0] for p in problems)))
    for sig, desc in problems[:1]:
        acc.violation(sig, desc, case)


def nothing_to_read(kind, acc, base):
    """Files from which no atom is kept: a system without molecules, a system of excluded water only, hydrogens only with ignh.
    'Any number of molecules' includes none: the reader returns an empty list, it does not fail."""
    import vermouth
    import numpy as np
    from vermouth.pdb.pdb import write_pdb, read_pdb
    case = {'layer': 'nothing-to-read', 'kind': kind}
    system = vermouth.System()
    kwargs = {}
    if kind != 'no-molecules':
        mol = vermouth.molecule.Molecule()
        for idx in range(3):
            mol.add_node(idx, atomname='OW' if kind == 'water-only' else 'H%d' % idx, resname='SOL' if kind == 'water-only' else 'GLY',
                         resid=1, chain='A', element='O' if kind == 'water-only' else 'H', position=np.array([0.1 * idx, 0.0, 0.0]))
        system.molecules.append(mol)
        if kind == 'hydrogens-only':
            kwargs['ignh'] = True
    path = os.path.join(base, 'nothing.pdb')
    try:
        write_pdb(system, path, defer_writing=False)
        mols = read_pdb(path, **kwargs)
        os.remove(path)
        got = [len(m) for m in mols]
    except Exception as err:   # pylint: disable=broad-except
        got = 'exception %r' % (err,)
    acc.case(nontrivial=True, outcome=('nothing', kind, str(got)))
    if got not in ([], [0]):
        acc.violation('pdb:nothing-to-read', '%s: reading the written file back gave %r, expected no molecule' % (kind, got), case)


def gro_sequence(seq, acc, base):
    """Several GRO files of different layouts (coordinate column width = precision + 1, with / without velocities) written
    and read back one after another in ONE process: every read-back is judged on its own."""
    import numpy as np
    import vermouth
    from vermouth.gmx.gro import write_gro, read_gro
    for step, (precision, has_vel) in enumerate(seq):
        case = {'layer': 'gro-sequence', 'sequence': [list(x) for x in seq], 'step': step}
        system = vermouth.System()
        mol = vermouth.molecule.Molecule()
        coords = [(-37.12, 20.5, 1.234), (0.001, -0.001, 99.999), (5.0, -99.999, -1.5)]
        for idx, xyz in enumerate(coords):
            attrs = dict(atomname='A%d' % idx, resname='RES', resid=idx + 1, chain='A', position=np.array(xyz, dtype=float))
            if has_vel:
                attrs['velocity'] = np.array([0.1234 * (idx + 1), -1.5, 9.8765])
            mol.add_node(idx, **attrs)
        system.molecules.append(mol)
        path = os.path.join(base, 'seq%d.gro' % step)
        problems = []
        try:
            write_gro(system, path, precision=precision, defer_writing=False)
            back = read_gro(path)
            os.remove(path)
            got = [back.nodes[k] for k in back.nodes]
            if len(got) != 3:
                problems.append(('gro:sequence-atoms', '%d atoms read back, 3 written' % len(got)))
            for idx, (node, xyz) in enumerate(zip(got, coords)):
                if (node.get('atomname'), node.get('resname'), node.get('resid')) != ('A%d' % idx, 'RES', idx + 1):
                    problems.append(('gro:sequence-fields', 'atom %d read back as %r' % (idx, (node.get('atomname'), node.get('resname'), node.get('resid')))))
                    break
                pos = node.get('position')
                if pos is None or not all(abs(float(p) - x) <= 5.001e-4 for p, x in zip(pos, xyz)):
                    problems.append(('gro:sequence-coordinates', 'atom %d written at %r (precision %d) read back at %r' % (
                        idx, xyz, precision, None if pos is None else [float(x) for x in pos])))
                    break
                if has_vel:
                    vel = node.get('velocity')
                    want = [0.1234 * (idx + 1), -1.5, 9.8765]
                    if vel is None or not all(abs(float(v) - w) <= 5.001e-5 for v, w in zip(vel, want)):
                        problems.append(('gro:sequence-velocities', 'atom %d velocity %r read back as %r' % (idx, want, None if vel is None else [float(x) for x in vel])))
                        break
        except Exception as err:   # pylint: disable=broad-except
            problems.append(('gro:sequence-exception', 'round trip raised %r' % (err,)))
        acc.case(nontrivial=step > 0, outcome=('groseq', step, precision, has_vel, tuple(p[0] for p in problems)))
        if problems:
            sig, desc = problems[0]
            acc.violation(sig, 'file %d of the sequence %r (precision, velocities) in one process: %s' % (step + 1, list(seq), desc), case)
            return


def gro_sequences(tier):
    layouts = [(7, False), (9, False), (7, True), (8, False)] + ([(9, True), (12, False)] if tier != 'quick' else [])
    seqs = [(l,) for l in layouts] + list(itertools.permutations(layouts, 2))
    if tier != 'quick':
        seqs += list(itertools.permutations(layouts, 3))
    return seqs


def mixed_velocities(pattern, acc, base):
    """A system of several molecules of which only some carry velocities (a structure read from a GRO file with velocities together
    with a ligand from a PDB file): the written GRO file reads back with every atom, whichever molecules those are."""
    import numpy as np
    from vermouth.gmx.gro import write_gro, read_gro
    case = {'layer': 'mixed-velocities', 'pattern': list(pattern)}
    sizes = [2] * len(pattern)

    def attrs_of(gi):
        attrs = {'atomname': 'C%d' % gi, 'resname': 'GLY', 'resid': gi // 2 + 1, 'chain': 'A', 'position': [0.1 * gi, 1.25, -0.3]}
        if pattern[gi // 2]:
            attrs['velocity'] = np.array([0.5 * (gi + 1), -1.5, 2.25])
        return attrs
    system, _ = build_system(sizes, attrs_of, [])
    written = [dict(mol.nodes[k]) for mol in system.molecules for k in mol.nodes]
    path = os.path.join(base, 'mixed.gro')
    problems = []
    try:
        write_gro(system, path, defer_writing=False)
        mol = read_gro(path)
        os.remove(path)
        read = [dict(mol.nodes[k]) for k in mol.nodes]
        compare_atoms('gro', written, read, problems)
        if not problems and all(pattern):
            for idx, (w, r) in enumerate(zip(written, read)):
                vel = r.get('velocity')
                if vel is None or not all(abs(float(a) - float(b)) <= 5e-4 for a, b in zip(vel, w['velocity'])):
                    problems.append(('gro:mixed-velocities', 'atom %d velocity %r read back as %r' % (idx, list(w['velocity']), vel)))
                    break
    except Exception as err:   # pylint: disable=broad-except
        problems.append(('gro:mixed-velocities-exception', 'a system whose molecules carry velocities as %r does not round-trip: %r' % (list(pattern), err)))
    acc.case(nontrivial=True, outcome=('mixed', tuple(pattern), tuple(p[0] for p in problems)))
    for sig, desc in problems[:1]:
        acc.violation(sig, desc, case)


def deferred_files(item, acc, base):
    """Two systems written with the default deferred writing to two paths, flushed once (what martinize2 does with its output
    files): each path holds its own system afterwards. The paths share the base name, the directory, or nothing."""
    from vermouth.pdb.pdb import write_pdb, read_pdb
    from vermouth.gmx.gro import write_gro, read_gro
    from vermouth.file_writer import DeferredFileWriter
    fmt, layout, flush_between = item
    case = {'layer': 'deferred-files', 'fmt': fmt, 'paths': layout, 'flush_between': flush_between}
    root = os.path.join(base, 'dw_%s_%s_%d' % (fmt, layout, flush_between))
    dirs = {'same-name-two-dirs': ('a', 'b'), 'two-names-one-dir': ('a', 'a'), 'name-is-prefix': ('a', 'a'), 'nested-dir': ('a', os.path.join('a', 'a'))}[layout]
    names = {'same-name-two-dirs': ('out', 'out'), 'two-names-one-dir': ('out', 'other'), 'name-is-prefix': ('out', 'out2'), 'nested-dir': ('out', 'out')}[layout]
    paths = []
    for d, n in zip(dirs, names):
        os.makedirs(os.path.join(root, d), exist_ok=True)
        paths.append(os.path.join(root, d, '%s.%s' % (n, fmt)))
    systems = []
    for which in (0, 1):
        def attrs_of(gi, which=which):
            return {'atomname': '%s%d' % ('CN'[which], gi), 'resname': ('GLY', 'ALA')[which], 'resid': gi + 1 + 10 * which, 'chain': 'AB'[which],
                    'position': [0.1 * gi + which, 0.2, 0.3]}
        systems.append(build_system([2 + which], attrs_of, [])[0])
    problems = []
    try:
        for which, (system, path) in enumerate(zip(systems, paths)):
            (write_pdb if fmt == 'pdb' else write_gro)(system, path)
            if flush_between and which == 0:
                DeferredFileWriter().write()
        DeferredFileWriter().write()
        for which, (system, path) in enumerate(zip(systems, paths)):
            if not os.path.exists(path):
                problems.append(('%s:deferred-file-missing' % fmt, 'after the flush %s does not exist (files present: %r)' % (
                    os.path.relpath(path, root), sorted(os.path.relpath(os.path.join(dp, f), root) for dp, _, fs in os.walk(root) for f in fs))))
                break
            mols = read_pdb(path) if fmt == 'pdb' else [read_gro(path)]
            read = [dict(mol.nodes[k]) for mol in mols for k in mol.nodes]
            written = [dict(mol.nodes[k]) for mol in system.molecules for k in mol.nodes]
            sub = []
            compare_atoms(fmt, written, read, sub)
            if sub:
                problems.append(('%s:deferred-file-content' % fmt, '%s holds something else than the system written to it: %s' % (os.path.relpath(path, root), sub[0][1])))
                break
    except Exception as err:   # pylint: disable=broad-except
        problems.append(('%s:deferred-exception' % fmt, 'writing two systems deferred (%s) raised %r' % (layout, err)))
    finally:
        shutil.rmtree(root, ignore_errors=True)
    acc.case(nontrivial=True, outcome=('deferred', fmt, layout, flush_between, tuple(p[0] for p in problems)))
    for sig, desc in problems[:1]:
        acc.violation(sig, desc, case)


def work(task):
    common.bind_repo()
    kind, cases = task
    acc = Acc()
    if kind == 'writer-options':
        base = tempfile.mkdtemp(prefix='verif_c16o_', dir='/dev/shm' if os.path.isdir('/dev/shm') else None)
        try:
            for item in cases:
                if isinstance(item, str):
                    nothing_to_read(item, acc, base)
                else:
                    writer_options(item, acc, base)
        finally:
            shutil.rmtree(base, ignore_errors=True)
        return acc
    if kind == 'several-molecules':
        base = tempfile.mkdtemp(prefix='verif_c16m_', dir='/dev/shm' if os.path.isdir('/dev/shm') else None)
        try:
            for item in cases:
                if item[0] == 'mixed':
                    mixed_velocities(item[1], acc, base)
                else:
                    deferred_files(item[1:], acc, base)
        finally:
            shutil.rmtree(base, ignore_errors=True)
        return acc
    if kind == 'gro-sequence':
        base = tempfile.mkdtemp(prefix='verif_c16s_', dir='/dev/shm' if os.path.isdir('/dev/shm') else None)
        try:
            for seq in cases:
                gro_sequence(seq, acc, base)
        finally:
            shutil.rmtree(base, ignore_errors=True)
        return acc
    base = tempfile.mkdtemp(prefix='verif_c16_', dir='/dev/shm' if os.path.isdir('/dev/shm') else None)
    try:
        for case in cases:
            if kind == 'fields':
                check_fields(case, acc, base)
            else:
                check_counts(case, acc, base)
    finally:
        shutil.rmtree(base, ignore_errors=True)
    return acc


def field_cases(tier):
    cases = []
    for fmt in ('pdb', 'gro'):
        for resid, alen, rlen, chain in itertools.product(RESIDS, range(1, 7), range(1, 7), ('', 'A')):
            cases.append({'fmt': fmt, 'resid': resid, 'alen': alen, 'rlen': rlen, 'chain': chain, 'xyz': [1.0, 2.0, 3.0]})
        menu = COORDS if tier != 'quick' else COORDS[:9]
        for xyz in itertools.product(menu, repeat=3):
            cases.append({'fmt': fmt, 'resid': 1, 'alen': 2, 'rlen': 3, 'chain': 'A', 'xyz': list(xyz)})
        for resid, x, alen in itertools.product(RESIDS, COORDS, (1, 4, 5, 6)):
            cases.append({'fmt': fmt, 'resid': resid, 'alen': alen, 'rlen': 4, 'chain': 'A', 'xyz': [x, -x, x], 'vary': True})
    return cases


def count_cases(tier):
    counts = [1, 2, 3, 12, 9998, 10000, 10001]
    if tier != 'quick':
        counts = [1, 2, 3, 12, 9997, 9998, 9999, 10000, 10001, 99996, 99997, 99998]
    cases = []
    for n in counts:
        for sizes in splits(n):
            pats = bond_patterns(n, sizes)
            names = list(pats)
            if (tier == 'quick' and n >= 9997) or n >= 99996:
                # the 10^5-atom systems take minutes each: the reduced pattern menu there, the full one around 10^4 (thorough)
                if len(sizes) == 3 and sizes[0] != 1:
                    continue
                names = [p for p in names if p in ('none', 'path', 'tail-pairs', 'first-last-of-last-mol', 'star5-last-mol')]
            if n + len(sizes) > 99999:
                continue        # beyond the five-digit serial numbering (every TER takes a serial too): outside the quantifier
            for pattern in names:
                cases.append({'n': n, 'sizes': sizes, 'pattern': pattern})
    return cases


def run(ctx):
    ctx.bound = {'resids': RESIDS, 'coords': COORDS, 'name_lengths': '1..6',
                 'atom_counts': '1,2,3,12,9997..10001' + ('' if ctx.quick else ',99996..99998 (last serial <= 99999)')}
    fc = field_cases(ctx.tier)
    acc = Acc()
    for part in common.pmap(work, [('fields', chunk) for chunk in common.chunked(fc, max(1, len(fc) // 48))]):
        acc += part
    ctx.layer('fields', acc)
    cc = count_cases(ctx.tier)
    cc.sort(key=lambda c: -c['n'])
    acc = Acc()
    for part in common.pmap(work, [('counts', [c]) for c in cc]):
        acc += part
    ctx.layer('counts', acc)
    acc = Acc()
    for part in common.pmap(work, [('gro-sequence', [seq]) for seq in gro_sequences(ctx.tier)], fresh=True):
        acc += part
    ctx.layer('gro-read-sequences', acc)
    acc = Acc()
    for part in common.pmap(work, [('writer-options', [item]) for item in list(itertools.product((True, False), repeat=3)) +
                                   ['no-molecules', 'water-only', 'hydrogens-only']]):
        acc += part
    ctx.layer('pdb-writer-options', acc)
    items = [('mixed', pat) for n in (1, 2, 3) for pat in itertools.product((True, False), repeat=n)]
    items += [('deferred', fmt, layout, flush) for fmt in ('pdb', 'gro')
              for layout in ('same-name-two-dirs', 'two-names-one-dir', 'name-is-prefix', 'nested-dir') for flush in (0, 1)]
    acc = Acc()
    for part in common.pmap(work, [('several-molecules', [item]) for item in items], fresh=True):
        acc += part
    ctx.layer('velocities-per-molecule-and-deferred-files', acc)


def replay(case):
    common.bind_repo()
    acc = Acc()
    base = tempfile.mkdtemp(prefix='verif_c16r_')
    try:
        case = dict(case)
        layer = case.pop('layer')
        if layer == 'nothing-to-read':
            nothing_to_read(case['kind'], acc, base)
        elif layer == 'pdb-writer-options':
            writer_options((case['conect'], case['omit_charges'], case['nan_missing_pos']), acc, base)
        elif layer == 'gro-sequence':
            gro_sequence(tuple(tuple(x) for x in case['sequence']), acc, base)
        elif layer == 'mixed-velocities':
            mixed_velocities(tuple(case['pattern']), acc, base)
        elif layer == 'deferred-files':
            deferred_files((case['fmt'], case['paths'], case['flush_between']), acc, base)
        elif layer == 'fields':
            check_fields(case, acc, base)
        else:
            check_counts(case, acc, base)
    finally:
        shutil.rmtree(base, ignore_errors=True)
    return [(s, d) for s, d, _ in acc.violations]
