"""
C17 through bin/martinize2: -ss as the program wires it.  The written topologies are compared between runs whose sequences the
statement makes equivalent (metamorphic relations; the interactions of the Martini protein model depend on the class of every
residue, so a shifted or mistranslated sequence changes angles and dihedrals):
  * one letter  ==  that letter repeated for every residue;
  * a sequence as long as one chain, for chains of equal length  ==  that sequence written once per chain;
  * DSSP classes that the fixed table sends to the same Martini class (B/E, G/H/I, and whole strings built from them);
  * a sequence of any other length is refused (non-zero exit, nothing written);
and, as a guard against a vacuous comparison, helix and coil must NOT give the same topology.
"""
import os
import shutil
import tempfile

from mc import common, cli
from mc.common import Acc
from props import cli_topology

# (chains, sequence a, sequence b, relation)
CASES = [
    (('P',), 'C', 'CCCCC', 'same'), (('P',), 'H', 'HHHHH', 'same'), (('P',), 'E', 'EEEEE', 'same'),
    (('P',), 'HHHHH', 'GGGGG', 'same'), (('P',), 'HHHHH', 'IIIII', 'same'), (('P',), 'EEEEE', 'BBBBB', 'same'),
    (('P',), 'HHHEE', 'GGGBB', 'same'), (('P',), 'CHHHC', 'CIIIC', 'same'), (('P',), 'TTSSC', 'TTSSC', 'same'),
    (('P',), 'HHHHH', 'CCCCC', 'different'), (('P',), 'EEEEE', 'CCCCC', 'different'), (('P',), 'HHHCC', 'CCHHH', 'different'),
    (('P', 'P'), 'HHHEE', 'HHHEEHHHEE', 'same'), (('P', 'P'), 'C', 'CCCCCCCCCC', 'same'), (('P', 'P'), 'HHHHHCCCCC', 'CCCCCHHHHH', 'different'),
    (('S', 'S', 'S'), 'HHE', 'HHEHHEHHE', 'same'), (('P', 'S'), 'E', 'EEEEEEEE', 'same'), (('P', 'S'), 'HHHHHCCC', 'CCCCCHHH', 'different'),
    (('S', 'P'), 'HHHCCCCC', 'CCCHHHHH', 'different'),
    (('P',), 'HHHH', None, 'refused'), (('P',), 'HHHHHH', None, 'refused'), (('P', 'S'), 'HHHEE', None, 'refused'),
    (('P', 'S'), 'HHE', None, 'refused'), (('P', 'P'), 'HHHHHHHHH', None, 'refused'), (('P',), '', None, 'refused'),
]


def run_one(base, tag, chains, sequence):
    from props import c11
    work = os.path.join(base, tag)
    os.makedirs(work)
    text, _ = cli_topology.cli_input(chains, 'ABC'[:len(chains)], (0,) * len(chains))
    with open(os.path.join(work, 'in.pdb'), 'w') as handle:
        handle.write(text)
    res = cli.run_inprocess(['-f', 'in.pdb', '-x', 'cg.pdb', '-o', 'topol.top', '-maxwarn', '100', '-sep', '-ss', sequence], work)
    out = c11.canonical(work) if res['exit'] == 0 else None
    files = sorted(f for f in os.listdir(work) if f != 'in.pdb')
    shutil.rmtree(work, ignore_errors=True)
    return res, out, files


def cli_case(item, acc):
    chains, seq_a, seq_b, relation = item
    case = {'layer': 'cli', 'chains': list(chains), 'a': seq_a, 'b': seq_b, 'relation': relation}
    base = tempfile.mkdtemp(prefix='verif_c17cli_', dir='/dev/shm' if os.path.isdir('/dev/shm') else None)
    try:
        res_a, out_a, files_a = run_one(base, 'a', chains, seq_a)
        problem = None
        if relation == 'refused':
            if res_a['exit'] == 0 or files_a:
                problem = ('c17:cli-length-mismatch-accepted', 'martinize2 -ss %s on chains %r (lengths %r): exit %r, files %r; a sequence of that '
                           'length fits neither every residue, one chain of equal chains, nor one letter' % (
                               seq_a, list(chains), [len(cli_topology.KEEP[c]) for c in chains], res_a['exit'], files_a))
        else:
            res_b, out_b, _ = run_one(base, 'b', chains, seq_b)
            if res_a['exit'] != 0 or res_b['exit'] != 0:
                problem = ('c17:cli-sequence-refused', 'martinize2 -ss %s / -ss %s on chains %r: exit %r / %r\n%s' % (
                    seq_a, seq_b, list(chains), res_a['exit'], res_b['exit'], (res_a['stderr'] + res_b['stderr'])[-300:]))
            else:
                same = out_a['itps'] == out_b['itps'] and out_a.get('top') == out_b.get('top')
                if relation == 'same' and not same:
                    name = [n for n in out_a['itps'] if out_a['itps'][n] != out_b['itps'].get(n)][:1]
                    diff = ''
                    if name:
                        ia, ib = out_a['itps'][name[0]]['interactions'], out_b['itps'][name[0]]['interactions']
                        diff = ' e.g. %r vs %r' % ([x for x in ia if x not in ib][:1], [x for x in ib if x not in ia][:1])
                    problem = ('c17:cli-equivalent-sequences-differ', 'martinize2 -ss %s and -ss %s on chains %r must give the same topology; '
                               'they differ (%r)%s' % (seq_a, seq_b, list(chains), name, diff))
                elif relation == 'different' and same:
                    problem = ('c17:cli-sequence-has-no-effect', 'martinize2 -ss %s and -ss %s on chains %r give the same topology' % (
                        seq_a, seq_b, list(chains)))
    finally:
        shutil.rmtree(base, ignore_errors=True)
    acc.case(nontrivial=True, outcome=('cli', relation, seq_a, problem[0] if problem else None))
    if problem:
        acc.violation(problem[0], problem[1], case)


def work(task):
    common.bind_repo()
    acc = Acc()
    for item in task:
        cli_case(item, acc)
    return acc


def run_layer(ctx):
    acc = Acc()
    for part in common.pmap(work, [[item] for item in CASES]):
        acc += part
    ctx.layer('martinize2-ss-option', acc)


def replay(case):
    common.bind_repo()
    acc = Acc()
    cli_case((tuple(case['chains']), case['a'], case['b'], case['relation']), acc)
    return [(s, d) for s, d, _ in acc.violations]
