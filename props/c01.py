"""
C01 — resolution transformation conserves atoms, residues and connectivity.

Two toy force fields are built in memory.  `fa` has residue types A (path a1-a2-a3) and B (b1-b2);
`fb` has bead blocks with intra-block bonds and an angle.  Mapping-set menu (one per shape named in the
quantifier): one-to-one; many-to-one; an atom shared between two beads; a zero-weight atom; a bead built
from no atom; a two-residue mapping (A-B -> one block; asymmetric so a placement is unique); two mapping
sets at once whose placements overlap.
Input molecules: all residue sequences of length 1..L over {A,B}; connectivity linear / star / ring /
linear + one cross-link between the first and the last residue; ALL permutations of the residue order in
node-key space and both within-residue key orders; resids consecutive, gapped and non-monotonic; optionally
one extra unmapped heavy atom or hydrogen; attribute_stash=('resid',) on/off.
Oracle: reference mapper = brute-force placements on (resname, atomname, same-residue relation); one block
copy per placement ordered by lowest atom key; residues renumbered 1..n; _old_resid = input resid; every
particle's constituents and weights exactly the mapping's; an edge between particles of different placements
iff some constituent atoms are bonded in the input; block interactions re-indexed; unmapped-atom warning
iff an uncovered non-hydrogen atom exists; inconsistent-data warning iff two placements overlap.
Modification mappings: residues carrying the label of a from-modification (anchor + one added atom) are mapped through a
modification mapping that overlays the residue's particle (attribute replacement) and creates one new particle: exactly one
created particle per modified residue, built from exactly the added atom, bonded to its residue's particle only.
"""
import itertools

from mc import common
from mc.common import Acc

RULE = ("every (sequence, connectivity, key permutation, within-residue order, resid scheme, extra atom, mapping set, "
        "stash) tuple; distinct = distinct tuples; non-trivial = >= 2 residues with a non-identity key permutation or "
        "non-linear connectivity")
ASSUMPTIONS = ["for a bead built from no atom the implementation may list atoms of its placement with weight 0; only positive "
               "weights and explicitly mapped zero-weight atoms are compared",
               "modification mappings: one anchor + one added atom -> one overlaid and one created particle; the position of the created "
               "particle in the output order is not judged",
               "for overlapping placements only the inconsistent-data warning is judged"]

RES_ATOMS = {'A': ['a1', 'a2', 'a3'], 'B': ['b1', 'b2']}
RES_EDGES = {'A': [('a1', 'a2'), ('a2', 'a3')], 'B': [('b1', 'b2')]}
HEAD = {'A': 'a1', 'B': 'b1'}
TAIL = {'A': 'a3', 'B': 'b2'}
HUB = {'A': 'a2', 'B': 'b1'}

# mapping sets: name -> list of mapping specs
# spec = (names tuple, block_to beads [(bead, resid)], bead edges, interactions, {atom (resindex, name): {bead: weight}})
MAPSETS = {
    'one-to-one': [
        (('A',), [('P1', 1), ('P2', 1), ('P3', 1)], [('P1', 'P2'), ('P2', 'P3')], [('angles', ('P1', 'P2', 'P3'), ['2', '120', '25'])],
         {(0, 'a1'): {'P1': 1.0}, (0, 'a2'): {'P2': 1.0}, (0, 'a3'): {'P3': 1.0}}),
        (('B',), [('Q1', 1), ('Q2', 1)], [('Q1', 'Q2')], [('bonds', ('Q1', 'Q2'), ['1', '0.3', '500'])],
         {(0, 'b1'): {'Q1': 1.0}, (0, 'b2'): {'Q2': 1.0}}),
    ],
    'many-to-one': [
        (('A',), [('BB', 1)], [], [], {(0, 'a1'): {'BB': 1.0}, (0, 'a2'): {'BB': 1.0}, (0, 'a3'): {'BB': 1.0}}),
        (('B',), [('BB', 1)], [], [], {(0, 'b1'): {'BB': 1.0}, (0, 'b2'): {'BB': 2.0}}),
    ],
    'shared-atom': [
        (('A',), [('X', 1), ('Y', 1)], [('X', 'Y')], [('bonds', ('X', 'Y'), ['1', '0.25', '700'])],
         {(0, 'a1'): {'X': 1.0}, (0, 'a2'): {'X': 1.0, 'Y': 1.0}, (0, 'a3'): {'Y': 1.0}}),
        (('B',), [('BB', 1)], [], [], {(0, 'b1'): {'BB': 1.0}, (0, 'b2'): {'BB': 1.0}}),
    ],
    'zero-weight': [
        (('A',), [('BB', 1), ('SC', 1)], [('BB', 'SC')], [],
         {(0, 'a1'): {'BB': 1.0}, (0, 'a2'): {'BB': 1.0, 'SC': 0.0}, (0, 'a3'): {'SC': 1.0}}),
        # V is built only from a zero-weight atom
        (('B',), [('BB', 1), ('V', 1)], [('BB', 'V')], [], {(0, 'b1'): {'BB': 1.0}, (0, 'b2'): {'BB': 1.0, 'V': 0.0}}),
    ],
    'no-atom-bead': [
        (('A',), [('BB', 1), ('D', 1)], [('BB', 'D')], [('bonds', ('BB', 'D'), ['1', '0.1', '9000'])],
         {(0, 'a1'): {'BB': 1.0}, (0, 'a2'): {'BB': 1.0}, (0, 'a3'): {'BB': 1.0}}),
        (('B',), [('BB', 1)], [], [], {(0, 'b1'): {'BB': 1.0}, (0, 'b2'): {'BB': 1.0}}),
    ],
    'two-residue': [
        (('A', 'B'), [('M1', 1), ('M2', 2)], [('M1', 'M2')], [('bonds', ('M1', 'M2'), ['1', '0.4', '300'])],
         {(0, 'a1'): {'M1': 1.0}, (0, 'a2'): {'M1': 1.0}, (0, 'a3'): {'M1': 1.0}, (1, 'b1'): {'M2': 1.0}, (1, 'b2'): {'M2': 1.0}}),
        (('A',), [('BB', 1)], [], [], {(0, 'a1'): {'BB': 1.0}, (0, 'a2'): {'BB': 1.0}, (0, 'a3'): {'BB': 1.0}}),
        (('B',), [('BB', 1)], [], [], {(0, 'b1'): {'BB': 1.0}, (0, 'b2'): {'BB': 1.0}}),
    ],
}
# a particle spanning two residues with a reference atom: its retained attributes come from the reference atom
MAPSETS['spanning-reference'] = [
    (('A', 'B'), [('M1', 1), ('M2', 2)], [('M1', 'M2')], [],
     {(0, 'a1'): {'M1': 1.0}, (0, 'a2'): {'M1': 1.0}, (0, 'a3'): {'M2': 1.0}, (1, 'b1'): {'M2': 1.0}, (1, 'b2'): {'M2': 1.0}},
     {'M2': (1, 'b1'), 'M1': (0, 'a1')}),
]
# weights normalised by the Mapping itself (normalize_weights=True): each particle's weights sum to 1
MAPSETS['normalised'] = [
    (('A',), [('BB', 1)], [], [], {(0, 'a1'): {'BB': 1.0}, (0, 'a2'): {'BB': 2.0}, (0, 'a3'): {'BB': 1.0}}, {}, True),
    (('B',), [('BB', 1)], [], [], {(0, 'b1'): {'BB': 3.0}, (0, 'b2'): {'BB': 1.0}}, {}, True),
]
MAPSETS['overlap'] = MAPSETS['many-to-one'] + [
    (('A2',), [('EX', 1)], [], [], {(0, 'a2'): {'EX': 1.0}, (0, 'a3'): {'EX': 1.0}}),
]
# in 'two-residue' the single-residue mappings exist too, so A-B neighbours are covered twice (overlap expected there)


def build_mappings(setname):
    """Returns (ff_from, ff_to, mappings dict, specs)."""
    import vermouth
    from vermouth.forcefield import ForceField
    from vermouth.molecule import Block
    from vermouth.map_parser import Mapping
    ff_from, ff_to = ForceField(name='fa'), ForceField(name='fb')
    mappings = {'fa': {'fb': {}}}
    specs = MAPSETS[setname]
    for spec in specs:
        names, beads, bead_edges, interactions, table = spec[:5]
        refs = spec[5] if len(spec) > 5 else {}
        normalize = spec[6] if len(spec) > 6 else False
        block_from = vermouth.molecule.Molecule(force_field=ff_from)
        keys = {}
        resnames = [n if n in RES_ATOMS else 'A' for n in names]
        for ridx, resname in enumerate(resnames):
            for atom in RES_ATOMS[resname]:
                if (ridx, atom) not in table:
                    continue
                key = len(keys)
                keys[(ridx, atom)] = key
                block_from.add_node(key, atomname=atom, resname=resname, resid=ridx + 1)
            for a, b in RES_EDGES[resname]:
                if (ridx, a) in keys and (ridx, b) in keys:
                    block_from.add_edge(keys[(ridx, a)], keys[(ridx, b)])
            if ridx:
                block_from.add_edge(keys[(ridx - 1, TAIL[resnames[ridx - 1]])], keys[(ridx, HEAD[resname])])
        block_to = Block(force_field=ff_to)
        block_to.name = '+'.join(names)
        block_to.nrexcl = 1
        for bead, resid in beads:
            block_to.add_atom({'atomname': bead, 'resname': 'C' + names[min(resid, len(names)) - 1], 'resid': resid,
                               'atype': 'T', 'charge_group': 1})
        for a, b in bead_edges:
            block_to.add_edge(a, b)
        for typ, atoms, params in interactions:
            block_to.add_interaction(typ, atoms, list(params))
        mapping = {keys[atom]: dict(weights) for atom, weights in table.items()}
        references = {bead: keys[atom] for bead, atom in refs.items()}
        mappings['fa']['fb'][names] = Mapping(block_from, block_to, mapping, references, ff_from=ff_from, ff_to=ff_to,
                                              names=names, type='block', normalize_weights=normalize)
    return ff_from, ff_to, mappings, specs


def build_molecule(ff, seq, shape, perm, inner_reverse, resid_scheme, extra):
    import vermouth
    n = len(seq)
    mol = vermouth.molecule.Molecule(force_field=ff)
    resids = {'consecutive': list(range(1, n + 1)), 'gapped': [2 + 3 * i for i in range(n)],
              'non-monotonic': [(i + 1) % n + 1 if n > 1 else 1 for i in range(n)]}[resid_scheme]
    # key blocks: residue r occupies keys 10*perm[r] .. ; within the residue forward or backward
    keys = {}
    atoms = []
    for r, resname in enumerate(seq):
        names = RES_ATOMS[resname]
        order = list(reversed(names)) if inner_reverse is True else names
        for j, atom in enumerate(order):
            if inner_reverse == 'spread' and j > 0:
                # the residue's first atom sits in a low key block, its other atoms in a high block whose residue
                # order is reversed: lowest-key order and highest-key order of the residues differ
                keys[(r, atom)] = 100 + 10 * (n - 1 - perm[r]) + j
            else:
                keys[(r, atom)] = 10 * perm[r] + j      # the lowest key is 0
    if extra:
        keys[(0, extra)] = 10 * perm[0] + 8
    for (r, atom), key in sorted(keys.items(), key=lambda kv: kv[1]):
        resname = seq[r]
        element = 'H' if atom == 'hx' else 'C'
        mol.add_node(key, atomname=atom, resname=resname, resid=resids[r], chain='A', element=element, tag='%d:%s' % (r, atom))
    for r, resname in enumerate(seq):
        for a, b in RES_EDGES[resname]:
            mol.add_edge(keys[(r, a)], keys[(r, b)])
    bonds = []
    if shape in ('linear', 'ring', 'crosslink'):
        bonds += [(r, r + 1) for r in range(n - 1)]
    if shape == 'ring' and n >= 3:
        bonds.append((n - 1, 0))
    if shape == 'star':
        bonds += [(0, r) for r in range(1, n)]
    inter = []
    for a, b in bonds:
        if shape == 'star':
            x, y = keys[(a, HUB[seq[a]])], keys[(b, HEAD[seq[b]])]
        else:
            x, y = keys[(a, TAIL[seq[a]])], keys[(b, HEAD[seq[b]])]
        mol.add_edge(x, y)
        inter.append(((a, mol.nodes[x]['atomname']), (b, mol.nodes[y]['atomname'])))
    if shape == 'crosslink' and n >= 3:
        x, y = keys[(0, HUB[seq[0]])], keys[(n - 1, HUB[seq[n - 1]])]
        mol.add_edge(x, y)
        inter.append(((0, HUB[seq[0]]), (n - 1, HUB[seq[n - 1]])))
    if extra:
        mol.add_edge(keys[(0, extra)], keys[(0, HEAD[seq[0]])])
    return mol, keys, resids, inter


def reference(seq, keys, resids, inter, specs, extra):
    """Brute-force placements and the expected output."""
    n = len(seq)
    inter_set = {frozenset(p) for p in inter}

    def bonded(a, b):
        """a, b = (residue index, atom name)"""
        if a[0] == b[0]:
            return frozenset((a[1], b[1])) in {frozenset(e) for e in RES_EDGES[seq[a[0]]]} or \
                (extra and a[0] == 0 and {a[1], b[1]} == {extra, HEAD[seq[0]]})
        return frozenset((a, b)) in inter_set
    placements = []
    for spec in specs:
        names, beads, bead_edges, interactions, table = spec[:5]
        refs = spec[5] if len(spec) > 5 else {}
        if len(spec) > 6 and spec[6]:
            totals = {}
            for atom, weights in table.items():
                for bead, w in weights.items():
                    totals[bead] = totals.get(bead, 0.0) + w
            table = {atom: {bead: w / totals[bead] for bead, w in weights.items()} for atom, weights in table.items()}
        resnames = [nm if nm in RES_ATOMS else 'A' for nm in names]
        k = len(resnames)
        for combo in itertools.permutations(range(n), k):
            if any(seq[combo[i]] != resnames[i] for i in range(k)):
                continue
            # induced: pattern atoms are the table keys; pattern edges: intra-residue block edges + tail-head between consecutive
            patoms = list(table)
            target = {pa: (combo[pa[0]], pa[1]) for pa in patoms}
            ok = True
            for pa, pb in itertools.combinations(patoms, 2):
                if pa[0] == pb[0]:
                    want = frozenset((pa[1], pb[1])) in {frozenset(e) for e in RES_EDGES[resnames[pa[0]]]}
                else:
                    lo, hi = sorted((pa, pb))
                    want = (hi[0] == lo[0] + 1 and lo[1] == TAIL[resnames[lo[0]]] and hi[1] == HEAD[resnames[hi[0]]])
                if want != bool(bonded(target[pa], target[pb])):
                    ok = False
                    break
            if ok:
                placements.append((names, beads, bead_edges, interactions, {target[pa]: w for pa, w in table.items()},
                                   {bead: target[pa] for bead, pa in refs.items()}))
    placements.sort(key=lambda p: min(keys[a] for a in p[4]))
    covered = {}
    overlap = False
    beads_out = []        # (atomname, new resid, old resid, constituents {tag: weight}, placement index)
    edges_out = set()
    inter_out = []
    offset = 0
    index = 0
    for pidx, (names, beads, bead_edges, interactions, assign, prefs) in enumerate(placements):
        for atom in assign:
            if atom in covered:
                overlap = True
            covered[atom] = pidx
        local = {}
        first_resid_of = {}
        for bead, resid in beads:
            constituents = {atom: w[bead] for atom, w in assign.items() if bead in w}
            local[bead] = index
            # old resid: the input resid of the residue its constituents come from (or of the placement for atom-less beads)
            if constituents:
                src = min(constituents, key=lambda a: keys[a])
                old = resids[sorted(constituents, key=lambda a: keys[a])[0][0]]
                olds = {resids[a[0]] for a in constituents}
            else:
                olds = {resids[a[0]] for a in assign}
            if bead in prefs:
                olds = {resids[prefs[bead][0]]}        # a reference atom decides the retained attributes
            beads_out.append({'atomname': bead, 'resid': resid + offset, 'old_resids': olds,
                              'constituents': {'%d:%s' % a: w for a, w in constituents.items()}, 'placement': pidx})
            index += 1
        for a, b in bead_edges:
            edges_out.add(frozenset((local[a], local[b])))
        for typ, atoms, params in interactions:
            inter_out.append((typ, tuple(local[a] for a in atoms), tuple(params)))
        offset += max(resid for _, resid in beads)
    # inter-placement edges
    for i, j in itertools.combinations(range(len(beads_out)), 2):
        bi, bj = beads_out[i], beads_out[j]
        if bi['placement'] == bj['placement']:
            continue
        linked = False
        for ta in bi['constituents']:
            for tb in bj['constituents']:
                ra, na = ta.split(':')
                rb, nb = tb.split(':')
                if (ra, na) != (rb, nb) and bonded((int(ra), na), (int(rb), nb)):
                    linked = True
        if linked:
            edges_out.add(frozenset((i, j)))
    all_atoms = [(r, a) for r, resname in enumerate(seq) for a in RES_ATOMS[resname]] + ([(0, extra)] if extra else [])
    uncovered_heavy = [a for a in all_atoms if a not in covered and a[1] != 'hx']
    return beads_out, edges_out, inter_out, bool(uncovered_heavy), overlap


def check(seq, shape, perm, inner_reverse, resid_scheme, extra, setname, stash, acc, sample=False, world=None):
    from vermouth.processors.do_mapping import do_mapping
    case = {'seq': ''.join(seq), 'shape': shape, 'perm': list(perm), 'inner_reverse': inner_reverse, 'resids': resid_scheme,
            'extra': extra, 'mapset': setname, 'stash': stash}
    if world is not None and setname in world:
        ff_from, ff_to, mappings, specs = world[setname]      # ONE collection of mapping objects over several molecules
    else:
        ff_from, ff_to, mappings, specs = build_mappings(setname)
        if world is not None:
            world[setname] = (ff_from, ff_to, mappings, specs)
    mol, keys, resids, inter = build_molecule(ff_from, seq, shape, perm, inner_reverse, resid_scheme, extra)
    beads, edges, interactions, expect_unmapped, expect_overlap = reference(seq, keys, resids, inter, specs, extra)
    try:
        with common.LogCapture() as log:
            out = do_mapping(mol, mappings, ff_to, attribute_keep=('chain',), attribute_stash=('resid',) if stash else ())
    except Exception as err:   # pylint: disable=broad-except
        acc.case(outcome='exc')
        acc.violation('c01:exception', 'do_mapping raised %r' % (err,), case)
        return
    types = log.types()
    problems = []
    nontrivial = len(seq) >= 2 and (list(perm) != sorted(perm) or shape != 'linear')
    if ('unmapped-atom' in types) != expect_unmapped:
        problems.append(('c01:unmapped-warning', 'unmapped-atom warning %s, but %s non-hydrogen atom is left uncovered' % (
            'raised' if 'unmapped-atom' in types else 'not raised', 'a' if expect_unmapped else 'no')))
    if not problems and expect_overlap != any(t == 'inconsistent-data' for t in types):
        problems.append(('c01:overlap-warning', 'inconsistent-data warning %s, overlapping placements: %s' % (
            'raised' if 'inconsistent-data' in types else 'not raised', expect_overlap)))
    if not problems and not expect_overlap:
        order = list(out.nodes)
        got = []
        for key in order:
            node = out.nodes[key]
            weights = node.get('mapping_weights', {})
            cons = {mol.nodes[k]['tag']: w for k, w in weights.items()}
            graph_nodes = sorted(mol.nodes[k]['tag'] for k in node['graph'].nodes) if 'graph' in node else None
            got.append({'atomname': node.get('atomname'), 'resid': node.get('resid'), 'old': node.get('_old_resid'),
                        'cons': cons, 'graph': graph_nodes, 'atype': node.get('atype'), 'chain': node.get('chain'),
                        'charge_group': node.get('charge_group')})
        if [g['atomname'] for g in got] != [b['atomname'] for b in beads]:
            problems.append(('c01:block-copies', 'particles %r, expected one block copy per placement in input order: %r' % (
                [g['atomname'] for g in got], [b['atomname'] for b in beads])))
        elif [g['resid'] for g in got] != [b['resid'] for b in beads]:
            problems.append(('c01:residue-renumbering', 'residue numbers %r, expected consecutive %r' % (
                [g['resid'] for g in got], [b['resid'] for b in beads])))
        else:
            for g, b in zip(got, beads):
                pos = {t: w for t, w in g['cons'].items() if w != 0}
                want_pos = {t: w for t, w in b['constituents'].items() if w != 0}
                zero_want = {t for t, w in b['constituents'].items() if w == 0}
                zero_got = {t for t, w in g['cons'].items() if w == 0}
                same_pos = set(pos) == set(want_pos) and all(abs(pos[t] - want_pos[t]) <= 1e-12 for t in pos)
                if not same_pos or not zero_want <= zero_got or (b['constituents'] and zero_got != zero_want):
                    problems.append(('c01:constituents', 'particle %s: atoms/weights %r, the mapping assigns %r' % (g['atomname'], g['cons'], b['constituents'])))
                    break
                if g['graph'] is not None and sorted(g['cons']) != g['graph']:
                    problems.append(('c01:constituent-graph', 'particle %s: constituent graph %r differs from its weight table %r' % (
                        g['atomname'], g['graph'], sorted(g['cons']))))
                    break
                if stash and g['old'] not in b['old_resids']:
                    problems.append(('c01:stashed-resid', 'particle %s: stashed input residue number %r, its atoms come from residue(s) %r' % (
                        g['atomname'], g['old'], sorted(b['old_resids']))))
                    break
                if not stash and g['old'] is not None:
                    problems.append(('c01:stashed-resid', 'particle %s carries a stashed residue number although none was requested' % g['atomname']))
                    break
                if g['atype'] != 'T' or g['chain'] != 'A':
                    problems.append(('c01:particle-attributes', 'particle %s: block attribute atype=%r (the target block says T), kept attribute chain=%r '
                                     '(all input atoms are in chain A)' % (g['atomname'], g['atype'], g['chain'])))
                    break
        if not problems:
            idx = {k: i for i, k in enumerate(order)}
            got_edges = {frozenset((idx[a], idx[b])) for a, b in out.edges}
            if got_edges != edges:
                missing = sorted(tuple(sorted(e)) for e in edges - got_edges)
                extra_e = sorted(tuple(sorted(e)) for e in got_edges - edges)
                sig = 'c01:missing-edge' if missing else 'c01:unjustified-edge'
                names = [b['atomname'] + str(b['resid']) for b in beads]
                problems.append((sig, 'edges between particles: missing %r, unjustified %r' % (
                    [(names[a], names[b]) for a, b in missing], [(names[a], names[b]) for a, b in extra_e])))
        if not problems:
            idx = {k: i for i, k in enumerate(order)}
            got_inter = sorted((t, tuple(idx[a] for a in i.atoms), tuple(i.parameters)) for t, lst in out.interactions.items() for i in lst)
            if got_inter != sorted(interactions):
                problems.append(('c01:interactions', 'interactions %r, expected the blocks\' own, re-indexed: %r' % (got_inter, sorted(interactions))))
    acc.case(nontrivial=nontrivial, outcome=(len(out), len(out.edges), tuple(sorted(set(types)))),
             sample=dict(case, particles=[out.nodes[k].get('atomname') for k in out.nodes]) if sample else None)
    for sig, desc in problems[:1]:
        acc.violation(sig, desc, case)


def check_modification(seq, shape, perm, inner_reverse, modified, acc, sample=False, context=False, two_kinds=False, anchor_weight=1):
    """A modification mapping: residues of type A listed in `modified` carry an extra atom x1 bonded to a3 and the label of the
    from-modification MODA; the mapping MODA -> MODB overlays bead BB (attribute replaced) and creates one new bead XB."""
    import vermouth
    from vermouth.map_parser import Mapping
    from vermouth.molecule import Modification
    from vermouth.processors.do_mapping import do_mapping
    case = {'layer': 'modification', 'seq': ''.join(seq), 'shape': shape, 'perm': list(perm), 'inner_reverse': inner_reverse, 'modified': list(modified),
            'context': context, 'two_kinds': two_kinds, 'anchor_weight': anchor_weight}
    ff_from, ff_to, mappings, specs = build_mappings('many-to-one')
    mod_from = Modification(force_field=ff_from)
    mod_from.name = 'MODA'
    mod_from.add_node('a3', atomname='a3', PTM_atom=False)
    mod_from.add_node('x1', atomname='x1', PTM_atom=True, modifications=[mod_from])
    mod_from.add_edge('a3', 'x1')
    mod_to = Modification(force_field=ff_to)
    mod_to.name = 'MODB'
    mod_to.add_node('BB', atomname='BB', PTM_atom=False, replace={'charge': -1})
    mod_to.add_node('XB', atomname='XB', PTM_atom=True, atype='TX', resname='MOD')
    mod_to.add_edge('BB', 'XB')
    mod_to.add_interaction('bonds', ['BB', 'XB'], ['1', '0.2', '4000'])
    if context:
        # the origin graph of the modification mapping reaches into the NEXT residue (its head atom b1, which carries no
        # modification label itself) - the place where it fits is still the same, and still yields exactly one XB
        map_from = Modification(force_field=ff_from)
        map_from.name = 'MODA'
        map_from.add_node('a3', atomname='a3', PTM_atom=False)
        map_from.add_node('x1', atomname='x1', PTM_atom=True, modifications=[mod_from])
        map_from.add_node('b1', atomname='b1', resname='B', PTM_atom=False)
        map_from.add_edges_from([('a3', 'x1'), ('a3', 'b1')])
        mod_to.add_node('NB', atomname='BB', PTM_atom=False)
        mod_to.add_edge('BB', 'NB')
        mappings['fa']['fb'][('MODA',)] = Mapping(map_from, mod_to, {'a3': {'BB': 1}, 'x1': {'XB': 1}, 'b1': {'NB': 1}}, {}, ff_from=ff_from,
                                                   ff_to=ff_to, names=('MODA',), type='modification')
    else:
        # the modification mapping states its own weight for the anchor atom: that is what the overlaid particle records
        mappings['fa']['fb'][('MODA',)] = Mapping(mod_from, mod_to, {'a3': {'BB': anchor_weight}, 'x1': {'XB': 1}}, {}, ff_from=ff_from, ff_to=ff_to,
                                                   names=('MODA',), type='modification')
    kind_of = {r: 'A' for r in modified}
    mod_from2 = None
    if two_kinds:
        # a SECOND modification with the same atom names and the same shape (a3 - x1), known under another name and mapped to
        # another particle: which of the two a residue carries is decided by its label, not by the shape
        mod_from2 = Modification(force_field=ff_from)
        mod_from2.name = 'MODC'
        mod_from2.add_node('a3', atomname='a3', PTM_atom=False)
        mod_from2.add_node('x1', atomname='x1', PTM_atom=True, modifications=[mod_from2])
        mod_from2.add_edge('a3', 'x1')
        mod_to2 = Modification(force_field=ff_to)
        mod_to2.name = 'MODD'
        mod_to2.add_node('BB', atomname='BB', PTM_atom=False, replace={'charge': -1})
        mod_to2.add_node('XC', atomname='XC', PTM_atom=True, atype='TY', resname='MOD')
        mod_to2.add_edge('BB', 'XC')
        mod_to2.add_interaction('bonds', ['BB', 'XC'], ['1', '0.2', '4000'])
        mappings['fa']['fb'][('MODC',)] = Mapping(mod_from2, mod_to2, {'a3': {'BB': 1}, 'x1': {'XC': 1}}, {}, ff_from=ff_from, ff_to=ff_to,
                                                   names=('MODC',), type='modification')
        kind_of = {r: ('A' if n % 2 == 0 else 'C') for n, r in enumerate(modified)}
    mol, keys, resids, inter = build_molecule(ff_from, seq, shape, perm, False if inner_reverse == 'natural' else inner_reverse,
                                              'consecutive', None)
    extra_tags = {}
    for r in modified:
        key = max(mol.nodes) + 1 if inner_reverse != 'front' else min(mol.nodes) - 1 - r
        if inner_reverse == 'natural':
            # the extra atom is listed with its residue, as in a structure file: after the last atom of that residue
            key = max(k for (res, _), k in keys.items() if res == r) + 0.5
        mol.add_node(key, atomname='x1', resname='A', resid=resids[r], chain='A', element='C', tag='%d:x1' % r, PTM_atom=True)
        mol.add_edge(key, keys[(r, 'a3')])
        extra_tags[r] = key
        label = mod_from if kind_of[r] == 'A' else mod_from2
        for name in RES_ATOMS['A']:
            mol.nodes[keys[(r, name)]]['modifications'] = [label]
        mol.nodes[key]['modifications'] = [label]
    try:
        with common.LogCapture() as log:
            out = do_mapping(mol, mappings, ff_to, attribute_keep=('chain',), attribute_stash=('resid',))
    except Exception as err:   # pylint: disable=broad-except
        acc.case(outcome='exc')
        acc.violation('c01:mod-exception', 'do_mapping raised %r' % (err,), case)
        return
    problems = []
    beads = [(k, d) for k, d in out.nodes(data=True)]
    plain = [(k, d) for k, d in beads if d.get('atomname') == 'BB']
    created = [(k, d) for k, d in beads if d.get('atomname') in ('XB', 'XC')]
    if len(plain) != len(seq) or len(beads) != len(seq) + len(modified):
        problems.append(('c01:mod-block-copies', '%d BB and %d XB particles for %d residues of which %d are modified' % (
            len(plain), len(created), len(seq), len(modified))))
    else:
        bb_of_res = {}
        for k, d in plain:
            tags = {mol.nodes[m]['tag'] for m, w in d.get('mapping_weights', {}).items()}
            res = {int(t.split(':')[0]) for t in tags}
            if len(res) != 1:
                problems.append(('c01:mod-constituents', 'BB particle built from atoms of residues %r' % (sorted(res),)))
                break
            bb_of_res[res.pop()] = (k, d)
        if not problems:
            numbers = [d.get('resid') for k, d in sorted(plain, key=lambda kd: kd[0])]
            if numbers != list(range(1, len(seq) + 1)):
                problems.append(('c01:mod-residue-renumbering', 'the BB particles carry residue numbers %r in output order, expected consecutive %r' % (
                    numbers, list(range(1, len(seq) + 1)))))
            olds = {r: bb_of_res[r][1].get('_old_resid') for r in range(len(seq))}
            if not problems and olds != {r: resids[r] for r in range(len(seq))}:
                problems.append(('c01:mod-stash', 'stashed input residue numbers %r, input %r' % (olds, resids)))
        if not problems:
            for r in range(len(seq)):
                k, d = bb_of_res[r]
                got_w = {mol.nodes[m]['tag'].split(':')[1]: w for m, w in d.get('mapping_weights', {}).items()}
                if seq[r] == 'A':
                    want_w = {'a1': 1.0, 'a2': 1.0, 'a3': float(anchor_weight) if (r in modified and not context and kind_of.get(r, 'A') == 'A') else 1.0}
                else:
                    want_w = {'b1': 1.0, 'b2': 2.0}
                if got_w != want_w:
                    problems.append(('c01:mod-weights', 'BB of residue %d (%s) records the weights %r, the mappings assign %r' % (
                        r, 'modified' if r in modified else 'plain', got_w, want_w)))
                    break
                want_charge = -1 if r in modified else None
                if d.get('charge') != want_charge:
                    problems.append(('c01:mod-replace', 'BB of residue %d has charge %r, the modification mapping says %r' % (r, d.get('charge'), want_charge)))
                    break
            seen = set()
            for k, d in created:
                cons = {mol.nodes[m]['tag']: w for m, w in d.get('mapping_weights', {}).items()}
                if len(cons) != 1 or list(cons.values()) != [1] or not list(cons)[0].endswith(':x1'):
                    problems.append(('c01:mod-constituents', 'created particle XB records %r, the mapping assigns exactly its x1 atom with weight 1' % (cons,)))
                    break
                r = int(list(cons)[0].split(':')[0])
                seen.add(r)
                if d.get('atomname') != ('XB' if kind_of.get(r, 'A') == 'A' else 'XC'):
                    problems.append(('c01:mod-wrong-mapping-placed', 'residue %d carries modification %s but got the particle %s' % (
                        r, 'MODA' if kind_of.get(r, 'A') == 'A' else 'MODC', d.get('atomname'))))
                    break
                nbrs = set(out[k])
                if nbrs != {bb_of_res[r][0]}:
                    problems.append(('c01:mod-edges', 'created particle of residue %d is bonded to %r, expected only its BB %r' % (r, sorted(nbrs), bb_of_res[r][0])))
                    break
                bonds = [tuple(i.atoms) for i in out.interactions.get('bonds', []) if k in i.atoms]
                if bonds != [(bb_of_res[r][0], k)]:
                    problems.append(('c01:mod-interactions', 'bonds of the created particle of residue %d: %r' % (r, bonds)))
                    break
            if not problems and seen != set(modified):
                problems.append(('c01:mod-block-copies', 'modified residues %r, created particles for %r' % (sorted(modified), sorted(seen))))
    acc.case(nontrivial=bool(modified), outcome=('mod', len(beads), len(created)), sample=case if sample else None)
    for sig, desc in problems[:1]:
        acc.violation(sig, desc, case)


def ref_cover(to_cover, options, start=0):
    """The documented contract, written independently: the first exact cover in lexicographic order of (non-decreasing) option
    indices; every item is covered once; an option qualifies when all its items are still to be covered."""
    if not to_cover:
        return []
    for idx in range(start, len(options)):
        option = options[idx]
        if all(item in to_cover for item in option):
            rest = [x for x in to_cover if x not in option]
            found = ref_cover(rest, options, idx)
            if found is not None:
                return [option] + found
    return None


def check_cover(task, acc):
    """cover() decides which modification mappings describe a group of modification names: every set of names over four
    letters against every list of up to three candidate name tuples."""
    from vermouth.processors.do_mapping import cover
    letters = 'abcd'
    subsets = [tuple(c) for n in range(1, 5) for c in itertools.combinations(letters, n)]
    first = task
    for rest_len in range(0, 3):
        for rest in itertools.product(subsets, repeat=rest_len):
            options = [first] + list(rest)
            for n in range(0, 5):
                for names in itertools.combinations(letters, n):
                    want = ref_cover(list(names), options)
                    try:
                        got = cover(list(names), list(options))
                    except Exception as err:   # pylint: disable=broad-except
                        got = 'exception %r' % (err,)
                    acc.case(nontrivial=want is not None and len(want) > 1, outcome=('cover', want is None, len(want or ())))
                    if got != want:
                        acc.violation('c01:mod-cover', 'cover(%r, %r) = %r; the first exact cover is %r' % (list(names), options, got, want),
                                      {'layer': 'cover', 'names': list(names), 'options': [list(o) for o in options]})
                        return


def sequence_case(item, acc):
    """One collection of Mapping objects (as DoMapping.run_system uses it) over several molecules, each judged on its own."""
    setname, mols = item
    world = {}
    before = len(acc.violations)
    for seq, shape, perm, inner in mols:
        check(seq, shape, perm, inner, 'gapped', None, setname, True, acc, world=world)
    for idx in range(before, len(acc.violations)):
        sig, desc, case = acc.violations[idx]
        acc.violations[idx] = (sig + '(molecule-sequence)', 'one mapping collection over the molecules %r: %s' % (list(mols), desc),
                               {'layer': 'sequence', 'mapset': setname, 'molecules': [[''.join(m[0]), m[1], list(m[2]), m[3]] for m in mols]})


SEQ_POOL = [(('A',), 'linear', (0,), False), (('A', 'B'), 'linear', (1, 0), 'spread'), (('B', 'A', 'A'), 'ring', (2, 0, 1), True),
            (('A', 'A', 'B'), 'star', (0, 1, 2), False), (('B', 'B'), 'linear', (0, 1), True)]


def work(task):
    common.bind_repo()
    acc = Acc()
    if isinstance(task, tuple) and task and task[0] == 'sequence':
        for item in task[1]:
            sequence_case(item, acc)
        return acc
    if isinstance(task, tuple) and task and task[0] == 'cover':
        check_cover(task[1], acc)
        return acc
    for n, item in enumerate(task):
        if item[0] == 'modification':
            check_modification(*item[1:6], acc, sample=(acc.states % 1009 == 0), context=(len(item) > 6 and item[6] is True),
                               two_kinds=(len(item) > 6 and item[6] == 'two-kinds'),
                               anchor_weight=(3 if len(item) > 6 and item[6] == 'anchor-3' else 1))
        else:
            check(*item, acc, sample=(acc.states % 5003 == 0))
    return acc


def cases(tier):
    max_len = 3 if tier == 'quick' else 4
    sets = ['one-to-one', 'many-to-one', 'shared-atom', 'zero-weight', 'no-atom-bead'] if tier == 'quick' else \
        ['one-to-one', 'many-to-one', 'shared-atom', 'zero-weight', 'no-atom-bead']
    out = []
    for n in range(1, max_len + 1):
        for seq in itertools.product('AB', repeat=n):
            shapes = ['linear'] + (['star', 'ring', 'crosslink'] if n >= 3 else [])
            for shape in shapes:
                for perm in itertools.permutations(range(n)):
                    for inner_reverse in (False, True, 'spread'):
                        for resid_scheme in ('consecutive', 'gapped', 'non-monotonic'):
                            if n == 1 and resid_scheme != 'consecutive':
                                continue
                            for setname in sets:
                                out.append((seq, shape, perm, inner_reverse, resid_scheme, None, setname, True))
                    # extras, stash off, special sets on the identity / reversed numbering only
                    if perm in (tuple(range(n)), tuple(reversed(range(n)))):
                        for extra in ('zz', 'hx'):
                            out.append((seq, shape, perm, False, 'consecutive', extra, 'many-to-one', True))
                        out.append((seq, shape, perm, False, 'gapped', None, 'one-to-one', False))
                        out.append((seq, shape, perm, False, 'consecutive', None, 'overlap', True))
                        out.append((seq, shape, perm, True, 'consecutive', None, 'two-residue', True))
                    for inner_reverse in (False, True, 'spread'):
                        out.append((seq, shape, perm, inner_reverse, 'gapped', None, 'normalised', True))
                        if 'A' in seq and 'B' in seq:
                            out.append((seq, shape, perm, inner_reverse, 'gapped', None, 'spanning-reference', True))
    return out


def run(ctx):
    ctx.bound = {'residues': 3 if ctx.quick else 4, 'mapping_sets': list(MAPSETS)}
    items = cases(ctx.tier)
    # modification mappings: every subset of the A residues modified
    max_len = 3 if ctx.quick else 4
    for n in range(1, max_len + 1):
        for seq in itertools.product('AB', repeat=n):
            a_res = [i for i, r in enumerate(seq) if r == 'A']
            for k in range(0, len(a_res) + 1):
                for modified in itertools.combinations(a_res, k):
                    for shape in (['linear'] + (['star', 'ring'] if n >= 3 else [])):
                        for perm in itertools.permutations(range(n)):
                            for inner in (False, 'spread', 'front', 'natural'):
                                items.append(('modification', seq, shape, perm, inner, modified))
                                if modified and shape in ('linear', 'ring') and all(r + 1 < n and seq[r + 1] == 'B' for r in modified):
                                    items.append(('modification', seq, shape, perm, inner, modified, True))
                                if len(modified) >= 2:
                                    items.append(('modification', seq, shape, perm, inner, modified, 'two-kinds'))
                                if modified and inner in (False, 'spread'):
                                    items.append(('modification', seq, shape, perm, inner, modified, 'anchor-3'))
    acc = Acc()
    for part in common.pmap(work, list(common.chunked(items, max(1, len(items) // 96)))):
        acc += part
    ctx.layer('mapping', acc)
    seqs = []
    for setname in MAPSETS:
        for mols in itertools.permutations(SEQ_POOL, 2):
            seqs.append((setname, mols))
        if not ctx.quick:
            for mols in itertools.permutations(SEQ_POOL, 3):
                seqs.append((setname, mols))
    acc = Acc()
    for part in common.pmap(work, [('sequence', chunk) for chunk in common.chunked(seqs, max(1, len(seqs) // 32))]):
        acc += part
    ctx.layer('molecule-sequences', acc)
    subsets = [tuple(c) for n in range(1, 5) for c in itertools.combinations('abcd', n)]
    acc = Acc()
    for part in common.pmap(work, [('cover', first) for first in subsets]):
        acc += part
    ctx.layer('modification-name-covers', acc)
    from props import cli_topology
    cli_topology.run_layer(ctx)


def replay(case):
    common.bind_repo()
    if case.get('layer') == 'cli-topology':
        from props import cli_topology
        return cli_topology.replay(case)
    acc = Acc()
    if case.get('layer') == 'cover':
        from vermouth.processors.do_mapping import cover
        options = [tuple(o) for o in case['options']]
        want = ref_cover(list(case['names']), options)
        try:
            got = cover(list(case['names']), list(options))
        except Exception as err:   # pylint: disable=broad-except
            got = 'exception %r' % (err,)
        return [('c01:mod-cover', 'cover gives %r, the first exact cover is %r' % (got, want))] if got != want else []
    if case.get('layer') == 'sequence':
        sequence_case((case['mapset'], [(tuple(m[0]), m[1], tuple(m[2]), m[3]) for m in case['molecules']]), acc)
        return [(s, d) for s, d, _ in acc.violations]
    if case.get('layer') == 'modification':
        check_modification(tuple(case['seq']), case['shape'], tuple(case['perm']), case['inner_reverse'], tuple(case['modified']), acc,
                           context=case.get('context', False), two_kinds=case.get('two_kinds', False),
                           anchor_weight=case.get('anchor_weight', 1))
        return [(s, d) for s, d, _ in acc.violations]
    check(tuple(case['seq']), case['shape'], tuple(case['perm']), case['inner_reverse'], case['resids'], case['extra'],
          case['mapset'], case['stash'], acc)
    return [(s, d) for s, d, _ in acc.violations]
