"""
C06 — subgraph matching is sound, complete and symmetry-reduced.

Enumerated: ALL labelled pattern graphs on <= p nodes (every numbering: the matcher's choices
depend on node order) x all graphs on <= g nodes up to isomorphism (networkx atlas), each under a
menu of relabellings; connected and disconnected; one or two node colours (all colourings) and one
or two edge colours; plus a structured family of larger symmetric patterns (paths, cycles, stars,
double stars, the double spider quoted in ismags.py, K2,n, ladders, all trees <= 7/8) against
themselves and against themselves with extra nodes/edges.
Oracle: brute-force backtracking (independent of ISMAGS): I = all injective colour- and
induced-edge-preserving maps, Aut(pattern) likewise.  symmetry=False must yield I exactly once each;
symmetry=True exactly one member of every orbit of I under Aut(pattern) and only members of I;
largest_common_subgraph only common induced subgraphs of the brute-force maximum size, every maximum
one returned or Aut-equivalent to a returned one.
"""
import itertools

from mc import common
from mc.common import Acc

RULE = ("every (labelled pattern, graph, relabelling, colouring) of the stated sizes; distinct = distinct tuples; "
        "non-trivial = the pattern has a non-trivial automorphism group and at least one embedding exists")
ASSUMPTIONS = ["node and edge equality are equality of a colour attribute (transitive, as the matcher requires)",
               "largest common subgraphs of size 0 are not judged"]
TRUSTED = ['CPython 3.12', 'networkx graph containers and the networkx graph atlas (enumeration of graphs up to isomorphism)',
           'the brute-force matcher in props/c06.py']


# ----------------------------------------------------------------------------- brute force

def adjacency(nodes, edges):
    adj = {n: set() for n in nodes}
    for a, b in edges:
        adj[a].add(b)
        adj[b].add(a)
    return adj


def embeddings(p_nodes, p_adj, p_col, p_ecol, g_nodes, g_adj, g_col, g_ecol, subset=None):
    """All injective maps pattern(subset) -> graph preserving colours and INDUCED adjacency."""
    order = list(p_nodes if subset is None else subset)
    out = []
    assign = {}
    used = set()

    def rec(i):
        if i == len(order):
            out.append(tuple(assign[u] for u in order))
            return
        u = order[i]
        for v in g_nodes:
            if v in used or p_col[u] != g_col[v]:
                continue
            ok = True
            for w in order[:i]:
                pe = w in p_adj[u]
                ge = assign[w] in g_adj[v]
                if pe != ge:
                    ok = False
                    break
                if pe and p_ecol[frozenset((u, w))] != g_ecol[frozenset((v, assign[w]))]:
                    ok = False
                    break
            if ok:
                assign[u] = v
                used.add(v)
                rec(i + 1)
                used.discard(v)
                del assign[u]
    rec(0)
    return order, out


class Pair:
    def __init__(self, p_nodes, p_edges, g_nodes, g_edges, p_col=None, g_col=None, p_ecol=None, g_ecol=None):
        self.p_nodes, self.p_edges = list(p_nodes), [tuple(e) for e in p_edges]
        self.g_nodes, self.g_edges = list(g_nodes), [tuple(e) for e in g_edges]
        self.p_col = p_col or {n: 0 for n in self.p_nodes}
        self.g_col = g_col or {n: 0 for n in self.g_nodes}
        self.p_ecol = {frozenset(e): (p_ecol or {}).get(frozenset(e), 0) for e in self.p_edges}
        self.g_ecol = {frozenset(e): (g_ecol or {}).get(frozenset(e), 0) for e in self.g_edges}
        self.p_adj = adjacency(self.p_nodes, self.p_edges)
        self.g_adj = adjacency(self.g_nodes, self.g_edges)

    def nx(self):
        import networkx as nx
        pattern, graph = nx.Graph(), nx.Graph()
        for n in self.p_nodes:
            pattern.add_node(n, c=self.p_col[n])
        for e in self.p_edges:
            pattern.add_edge(*e, c=self.p_ecol[frozenset(e)])
        for n in self.g_nodes:
            graph.add_node(n, c=self.g_col[n])
        for e in self.g_edges:
            graph.add_edge(*e, c=self.g_ecol[frozenset(e)])
        return graph, pattern

    def case(self):
        return {'p_nodes': self.p_nodes, 'p_edges': [list(e) for e in self.p_edges],
                'g_nodes': self.g_nodes, 'g_edges': [list(e) for e in self.g_edges],
                'p_col': [self.p_col[n] for n in self.p_nodes], 'g_col': [self.g_col[n] for n in self.g_nodes],
                'p_ecol': [self.p_ecol[frozenset(e)] for e in self.p_edges],
                'g_ecol': [self.g_ecol[frozenset(e)] for e in self.g_edges]}

    @staticmethod
    def from_case(case):
        p_edges = [tuple(e) for e in case['p_edges']]
        g_edges = [tuple(e) for e in case['g_edges']]
        return Pair(case['p_nodes'], p_edges, case['g_nodes'], g_edges,
                    dict(zip(case['p_nodes'], case['p_col'])), dict(zip(case['g_nodes'], case['g_col'])),
                    {frozenset(e): c for e, c in zip(p_edges, case['p_ecol'])},
                    {frozenset(e): c for e, c in zip(g_edges, case['g_ecol'])})


def check_pair(pair, acc, do_lcs=True, sample=False, cache=None, shared_object=False):
    from vermouth.ismags import ISMAGS as _ISMAGS
    import functools
    # `cache` (a dict shared between calls, as RepairGraph does per molecule) must never change an answer
    ISMAGS = functools.partial(_ISMAGS, cache=cache) if cache is not None else _ISMAGS
    if shared_object:
        # ONE matcher object answers all queries of this pair, one after the other
        _holder = {}

        def ISMAGS(graph, pattern, node_match=None, edge_match=None):   # noqa: F811  pylint: disable=function-redefined
            if 'obj' not in _holder:
                _holder['obj'] = _ISMAGS(graph, pattern, node_match=node_match, edge_match=edge_match)
            return _holder['obj']
    graph, pattern = pair.nx()
    multi_col = len(set(pair.p_col.values()) | set(pair.g_col.values())) > 1
    multi_ecol = len(set(pair.p_ecol.values()) | set(pair.g_ecol.values())) > 1
    nm = (lambda a, b: a['c'] == b['c']) if multi_col else None
    em = (lambda a, b: a['c'] == b['c']) if multi_ecol else None
    case = pair.case()
    order, all_maps = embeddings(pair.p_nodes, pair.p_adj, pair.p_col, pair.p_ecol,
                                 pair.g_nodes, pair.g_adj, pair.g_col, pair.g_ecol)
    _, autos = embeddings(pair.p_nodes, pair.p_adj, pair.p_col, pair.p_ecol,
                          pair.p_nodes, pair.p_adj, pair.p_col, pair.p_ecol)
    index = {u: i for i, u in enumerate(order)}
    iset = set(all_maps)

    def orbit_key(fmap):
        return min(tuple(fmap[index[a[index[u]]]] for u in order) for a in autos)

    def as_tuple(result):
        inv = {p: g for g, p in result.items()}
        if set(inv) != set(order) or len(inv) != len(result):
            return None
        return tuple(inv[u] for u in order)
    problems = []
    # ---- symmetry=False: I exactly once each
    try:
        plain = [as_tuple(m) for m in ISMAGS(graph, pattern, node_match=nm, edge_match=em).find_isomorphisms(symmetry=False)]
        if pair.p_nodes:
            if any(m is None or m not in iset for m in plain):
                problems.append(('ismags:unsound', 'symmetry=False yielded a map that is not an induced isomorphism: %r' % (
                    [m for m in plain if m is None or m not in iset][:3],)))
            elif len(plain) != len(set(plain)):
                problems.append(('ismags:duplicate', 'symmetry=False yielded %d maps, %d distinct' % (len(plain), len(set(plain)))))
            elif set(plain) != iset:
                problems.append(('ismags:incomplete', 'symmetry=False yielded %d of %d isomorphisms; missing e.g. %r' % (
                    len(plain), len(iset), sorted(iset - set(plain))[:2])))
        # ---- symmetry=True: one representative per orbit
        reduced = [as_tuple(m) for m in ISMAGS(graph, pattern, node_match=nm, edge_match=em).find_isomorphisms(symmetry=True)]
        if pair.p_nodes and not problems:
            if any(m is None or m not in iset for m in reduced):
                problems.append(('ismags:sym-unsound', 'symmetry=True yielded a non-isomorphism %r' % (
                    [m for m in reduced if m is None or m not in iset][:3],)))
            else:
                keys = [orbit_key(m) for m in reduced]
                want = {orbit_key(m) for m in all_maps}
                if len(keys) != len(set(keys)):
                    problems.append(('ismags:sym-two-of-one-class', 'symmetry=True yielded two members of one symmetry class (%d results, %d classes)' % (
                        len(keys), len(set(keys)))))
                elif set(keys) != want:
                    problems.append(('ismags:sym-class-lost', 'symmetry=True covers %d of %d symmetry classes (|Aut|=%d, |I|=%d)' % (
                        len(set(keys)), len(want), len(autos), len(iset))))
        # ---- largest common subgraph
        if do_lcs and pair.p_nodes and pair.g_nodes and not problems:
            best, maxima = 0, []
            for size in range(min(len(pair.p_nodes), len(pair.g_nodes)), 0, -1):
                found = []
                for subset in itertools.combinations(pair.p_nodes, size):
                    _, maps = embeddings(pair.p_nodes, pair.p_adj, pair.p_col, pair.p_ecol,
                                         pair.g_nodes, pair.g_adj, pair.g_col, pair.g_ecol, subset=subset)
                    found.extend(frozenset(zip(subset, m)) for m in maps)
                if found:
                    best, maxima = size, found
                    break
            if best:
                mset = set(maxima)
                for sym in (False, True):
                    got = [frozenset((p, g) for g, p in m.items()) for m in
                           ISMAGS(graph, pattern, node_match=nm, edge_match=em).largest_common_subgraph(symmetry=sym)]
                    bad = [m for m in got if m not in mset]
                    if bad:
                        problems.append(('ismags:lcs-not-maximum-common', 'largest_common_subgraph(symmetry=%s) returned %r; maximum size is %d' % (
                            sym, sorted(bad[0]), best)))
                        break
                    covered = set()
                    for m in got:
                        md = dict(m)
                        for a in autos:
                            covered.add(frozenset((a[index[u]], md[u]) for u in md))
                    if not mset <= covered:
                        problems.append(('ismags:lcs-maximum-lost', 'largest_common_subgraph(symmetry=%s): %d of %d maximum common subgraphs are neither '
                                         'returned nor symmetry-equivalent to a returned one, e.g. %r' % (
                                             sym, len(mset - covered), len(mset), sorted(next(iter(mset - covered))))))
                        break
    except Exception as err:   # pylint: disable=broad-except
        problems.append(('ismags:exception', 'ISMAGS raised %r' % (err,)))
    acc.case(nontrivial=len(autos) > 1 and bool(iset), outcome=(len(iset), len(autos), len(pair.p_nodes)),
             sample=case if sample else None, transitions=4)
    for sig, desc in problems[:1]:
        if shared_object:
            sig, desc = sig + '(same-object)', 'one matcher object used for all queries in turn: ' + desc
            case = dict(case, shared_object=True)
        acc.violation(sig, desc, case)


# ----------------------------------------------------------------------------- enumeration

def labelled_graphs(n):
    pairs = list(itertools.combinations(range(n), 2))
    for mask in range(1 << len(pairs)):
        yield [pairs[i] for i in range(len(pairs)) if mask >> i & 1]


def atlas(max_nodes):
    import networkx as nx
    for graph in nx.graph_atlas_g():
        if 1 <= len(graph) <= max_nodes:
            yield sorted(graph.nodes), sorted(tuple(sorted(e)) for e in graph.edges)


def relabel(nodes, edges, kind, seed=0):
    n = len(nodes)
    if kind == 'id':
        perm = {v: v for v in nodes}
    elif kind == 'rev':
        perm = {v: nodes[n - 1 - i] for i, v in enumerate(nodes)}
    else:
        import random
        rng = random.Random(seed * 1000003 + n * 31 + len(edges))
        shuffled = list(nodes)
        rng.shuffle(shuffled)
        perm = dict(zip(nodes, shuffled))
    return sorted(perm.values()), [tuple(sorted((perm[a], perm[b]))) for a, b in edges]


def work(task):
    common.bind_repo()
    kind, payload = task
    acc = Acc()
    if kind == 'plain':
        pmax_edges, graphs, relabels, seed, do_lcs = payload
        n, p_edges = pmax_edges
        for g_nodes, g_edges in graphs:
            for rl in relabels:
                gn, ge = relabel(g_nodes, g_edges, rl, seed)
                # graph node keys shifted so that pattern and graph keys differ
                gn2 = [v + 10 for v in gn]
                ge2 = [(a + 10, b + 10) for a, b in ge]
                check_pair(Pair(range(n), p_edges, gn2, ge2), acc, do_lcs=do_lcs, sample=(acc.states % 9001 == 0))
                if do_lcs and rl == 'id':
                    check_pair(Pair(range(n), p_edges, gn2, ge2), acc, do_lcs=True, shared_object=True)
    elif kind == 'coloured':
        (n, p_edges), graphs = payload
        shared_cache = {}      # one symmetry cache for all colourings of this pattern structure and all graphs
        for p_colours in itertools.product((0, 1), repeat=n):
            if p_colours[0] != 0:
                continue      # colour names are symmetric
            for g_nodes, g_edges in graphs:
                for g_colours in itertools.product((0, 1), repeat=len(g_nodes)):
                    pair = Pair(range(n), p_edges, [v + 10 for v in g_nodes], [(a + 10, b + 10) for a, b in g_edges],
                                dict(zip(range(n), p_colours)), dict(zip([v + 10 for v in g_nodes], g_colours)))
                    check_pair(pair, acc, sample=(acc.states % 9001 == 0), cache=shared_cache)
    elif kind == 'edge-coloured':
        (n, p_edges), graphs = payload
        for p_ec in itertools.product((0, 1), repeat=len(p_edges)):
            for g_nodes, g_edges in graphs:
                for g_ec in itertools.product((0, 1), repeat=len(g_edges)):
                    ge2 = [(a + 10, b + 10) for a, b in g_edges]
                    pair = Pair(range(n), p_edges, [v + 10 for v in g_nodes], ge2,
                                p_ecol={frozenset(e): c for e, c in zip(p_edges, p_ec)},
                                g_ecol={frozenset(e): c for e, c in zip(ge2, g_ec)})
                    check_pair(pair, acc, sample=(acc.states % 9001 == 0))
    else:   # structured family
        for name, nodes, edges, variant in payload:
            gn = [v + 100 for v in nodes]
            ge = [(a + 100, b + 100) for a, b in edges]
            if variant == 'self':
                pass
            elif variant == 'plus-leaf':
                gn = gn + [999]
                ge = ge + [(gn[0], 999)]
            elif variant == 'plus-isolated':
                gn = gn + [999]
            elif variant == 'plus-edge':
                # add a chord between the two lowest non-adjacent nodes
                have = {frozenset(e) for e in ge}
                for a, b in itertools.combinations(gn, 2):
                    if frozenset((a, b)) not in have:
                        ge = ge + [(a, b)]
                        break
            elif variant == 'reversed':
                perm = dict(zip(gn, reversed(gn)))
                ge = [(perm[a], perm[b]) for a, b in ge]
            check_pair(Pair(nodes, edges, gn, ge), acc, do_lcs=len(nodes) <= 8, sample=(acc.states % 53 == 0))
            if len(nodes) <= 8:
                check_pair(Pair(nodes, edges, gn, ge), acc, do_lcs=True, shared_object=True)
    return acc


def structured(tier):
    import networkx as nx
    fam = []

    def add(name, graph):
        graph = nx.convert_node_labels_to_integers(graph)
        fam.append((name, sorted(graph.nodes), sorted(tuple(sorted(e)) for e in graph.edges)))
    for n in range(2, 9):
        add('path%d' % n, nx.path_graph(n))
    for n in range(3, 9):
        add('cycle%d' % n, nx.cycle_graph(n))
    for n in range(2, 7):
        add('star%d' % n, nx.star_graph(n))
    for n in range(2, 6):
        add('K2_%d' % n, nx.complete_bipartite_graph(2, n))
    for n in range(2, 5):
        add('ladder%d' % n, nx.ladder_graph(n))
    for a, b in ((2, 2), (2, 3), (3, 3)):
        g = nx.Graph()
        g.add_edge(0, 1)
        for i in range(a):
            g.add_edge(0, 10 + i)
        for i in range(b):
            g.add_edge(1, 20 + i)
        add('doublestar%d_%d' % (a, b), g)
    # the double spider of the ismags.py docstring: two hubs joined, legs of length 2
    g = nx.Graph()
    g.add_edge(0, 1)
    for hub, base in ((0, 10), (1, 20)):
        for leg in range(2):
            g.add_edge(hub, base + 2 * leg)
            g.add_edge(base + 2 * leg, base + 2 * leg + 1)
    add('doublespider', g)
    # spiders (one hub, legs of given lengths) up to 10 nodes, each under several node numberings: the automorphism
    # analysis refines partitions in rounds whose course depends on the numbering
    import random
    leg_sets = [(1, 1, 1), (2, 2), (2, 2, 2), (3, 3), (3, 3, 3), (2, 2, 2, 2), (1, 2, 3), (2, 2, 3), (1, 1, 2, 2), (3, 3, 2), (4, 4), (2, 3, 3)]
    for legs in leg_sets:
        if sum(legs) + 1 > (10 if tier != 'quick' or sum(legs) <= 9 else 9):
            continue
        g = nx.Graph()
        node = 1
        for leg in legs:
            prev = 0
            for _ in range(leg):
                g.add_edge(prev, node)
                prev = node
                node += 1
        base_nodes = sorted(g.nodes)
        numberings = [dict(zip(base_nodes, base_nodes)), dict(zip(base_nodes, reversed(base_nodes)))]
        for k in range(6 if tier == 'quick' else 20):
            rng = random.Random(hash((legs, k)) & 0xffffffff if False else (sum(l * 31 ** i for i, l in enumerate(legs)) * 7919 + k))
            perm = list(base_nodes)
            rng.shuffle(perm)
            numberings.append(dict(zip(base_nodes, perm)))
        # the numbering quoted for the long-legged spider: hub 5, legs 1-7-0, 2-6-9, 3-4-8
        if legs == (3, 3, 3):
            numberings.append({0: 5, 1: 1, 2: 7, 3: 0, 4: 2, 5: 6, 6: 9, 7: 3, 8: 4, 9: 8})
        for idx, numbering in enumerate(numberings):
            h = nx.relabel_nodes(g, numbering)
            fam.append(('spider%s#%d' % ('-'.join(map(str, legs)), idx), sorted(h.nodes), sorted(tuple(sorted(e)) for e in h.edges)))
    # balanced trees with nested symmetry (13 and 15 nodes): one automorphism moves several pairs of nodes at once, so the orbit
    # bookkeeping has to merge more than one pair per permutation found; under three node numberings each
    for name, tree in (('ternary-tree-depth2', nx.balanced_tree(3, 2)), ('binary-tree-depth3', nx.balanced_tree(2, 3)),
                       ('two-ternary-stars-joined', nx.balanced_tree(3, 2).subgraph([0, 1, 2, 4, 5, 6, 7, 8, 9]).copy())):
        tree = nx.convert_node_labels_to_integers(tree)
        base_nodes = sorted(tree.nodes)
        for k in range(3 if tier == 'quick' else 8):
            perm = list(base_nodes)
            random.Random(1000 * len(base_nodes) + k).shuffle(perm)
            if k == 0:
                perm = list(base_nodes)
            h = nx.relabel_nodes(tree, dict(zip(base_nodes, perm)))
            fam.append(('%s#%d' % (name, k), sorted(h.nodes), sorted(tuple(sorted(e)) for e in h.edges)))
    max_tree = 7 if tier == 'quick' else 8
    for n in range(2, max_tree + 1):
        for idx, tree in enumerate(nx.nonisomorphic_trees(n)):
            add('tree%d_%d' % (n, idx), tree)
    variants = ['self', 'reversed', 'plus-leaf', 'plus-isolated', 'plus-edge']
    return [(name, nodes, edges, variant) for name, nodes, edges in fam for variant in variants]


def run(ctx):
    if ctx.quick:
        pmax, gmax, relabels, lcs_pmax = 4, 5, ['id', 'rev'], 4
    else:
        pmax, gmax, relabels, lcs_pmax = 5, 6, ['id', 'rev', 'seeded'], 4
    ctx.bound = {'pattern_nodes': pmax, 'graph_nodes': gmax, 'relabellings': relabels,
                 'two_node_colours': 'pattern<=3 x graph<=4' if ctx.quick else 'pattern<=4 x graph<=4',
                 'two_edge_colours': 'pattern<=3 x graph<=4 (<=4 edges)'}
    graphs = list(atlas(gmax))
    tasks = []
    for n in range(1, pmax + 1):
        for p_edges in labelled_graphs(n):
            gsel = graphs if n <= 4 else [g for g in graphs if len(g[0]) <= (6 if not ctx.quick else 5)]
            for chunk in common.chunked(gsel, 60):
                tasks.append(('plain', ((n, p_edges), chunk, relabels, ctx.seed, n <= lcs_pmax)))
    acc = Acc()
    for part in common.pmap(work, tasks, chunksize=4):
        acc += part
    ctx.layer('all-labelled-patterns', acc)
    small_graphs = [g for g in graphs if len(g[0]) <= 4]
    cmax = 3 if ctx.quick else 4
    tasks = [('coloured', ((n, e), small_graphs)) for n in range(1, cmax + 1) for e in labelled_graphs(n)]
    acc = Acc()
    for part in common.pmap(work, tasks):
        acc += part
    ctx.layer('two-node-colours', acc)
    eg = [g for g in small_graphs if len(g[1]) <= 4]
    tasks = [('edge-coloured', ((n, e), eg)) for n in range(2, 4) for e in labelled_graphs(n) if e]
    acc = Acc()
    for part in common.pmap(work, tasks):
        acc += part
    ctx.layer('two-edge-colours', acc)
    fam = structured(ctx.tier)
    acc = Acc()
    for part in common.pmap(work, [('family', [item]) for item in fam], chunksize=2):
        acc += part
    ctx.layer('structured-family', acc)


def replay(case):
    common.bind_repo()
    acc = Acc()
    check_pair(Pair.from_case(case), acc, shared_object=bool(case.get('shared_object')))
    return [(s, d) for s, d, _ in acc.violations]
