"""
C13 layers for .itp (read_itp) and .map (read_backmapping_file) files.
Same scheme as the .ff layers: chunks carry their text and their declared content.
"""
import itertools
import os

from mc import common
from mc.common import Acc
from props import c13


# ----------------------------------------------------------------------------- ITP

def itp_rich(i):
    name = 'IA%d' % i
    lines = [
        '[ moleculetype ]', '%s 3' % name,
        '[ atoms ]',
        '1 P1 1 %s BB 1' % name,
        '2 C1 1 %s SC1 2 0.5' % name,
        '3 C2 2 %s SC2 3 -1.0 36.0' % name,
        '[ bonds ]',
        '1 2 1 0.25 1000',
        '#ifdef FLEX',
        '2 3 1 0.3 500',
        '#else',
        '[ constraints ]',
        '2 3 1 0.3',
        '#endif',
        '[ angles ]',
        '1 2 3 2 120 50 ; comment',
        '[ exclusions ]',
        '1 2 3',
        '[ virtual_sitesn ]',
        '3 1 1 2',
        '#ifndef NOPOSRES',
        '[ position_restraints ]',
        '1 1 1000 1000 1000',
        '#endif',
        '#define SOMETHING 1',
    ]
    nodes = [
        [0, {'index': 1, 'atomname': 'BB', 'atype': 'P1', 'resname': name, 'resid': 1, 'charge_group': 1}],
        [1, {'index': 2, 'atomname': 'SC1', 'atype': 'C1', 'resname': name, 'resid': 1, 'charge_group': 2, 'charge': 0.5}],
        [2, {'index': 3, 'atomname': 'SC2', 'atype': 'C2', 'resname': name, 'resid': 2, 'charge_group': 3, 'charge': -1.0, 'mass': 36.0}],
    ]
    declared = {
        'name': name, 'nrexcl': 3, 'nodes': nodes,
        'interactions': {
            'bonds': [[[0, 1], ['1', '0.25', '1000'], {}], [[1, 2], ['1', '0.3', '500'], {'ifdef': 'FLEX'}]],
            'constraints': [[[1, 2], ['1', '0.3'], {'ifndef': 'FLEX'}]],
            'angles': [[[0, 1, 2], ['2', '120', '50'], {}]],
            'exclusions': [[[0, 1, 2], [], {}]],
            'virtual_sitesn': [[[2, 0, 1], ['1'], {}]],
            'position_restraints': [[[0], ['1', '1000', '1000', '1000'], {'ifndef': 'NOPOSRES'}]],
        },
    }
    return lines, declared


def itp_two(i):
    name = 'IB%d' % i
    lines = ['[ moleculetype ]', '%s 1' % name, '[ atoms ]',
             '1 Q1 1 %s NA 1 1.0 23.0' % name, '2 Q2 1 %s CL 2 -1.0 35.0' % name,
             '[ pairs ]', '1 2 1', '[ dihedral_restraints ]']
    declared = {'name': name, 'nrexcl': 1,
                'nodes': [[0, {'index': 1, 'atomname': 'NA', 'atype': 'Q1', 'resname': name, 'resid': 1, 'charge_group': 1, 'charge': 1.0, 'mass': 23.0}],
                          [1, {'index': 2, 'atomname': 'CL', 'atype': 'Q2', 'resname': name, 'resid': 1, 'charge_group': 2, 'charge': -1.0, 'mass': 35.0}]],
                'interactions': {'pairs': [[[0, 1], ['1'], {}]]}}
    return lines, declared


def itp_one(i):
    name = 'IC%d' % i
    lines = ['[ moleculetype ]', '%s 0' % name, '[ atoms ]', '1 W 1 %s W 1' % name]
    declared = {'name': name, 'nrexcl': 0,
                'nodes': [[0, {'index': 1, 'atomname': 'W', 'atype': 'W', 'resname': name, 'resid': 1, 'charge_group': 1}]],
                'interactions': {}}
    return lines, declared


ITP_CHUNKS = {'rich': itp_rich, 'two': itp_two, 'one': itp_one}


def itp_file(seq):
    lines, declared = ['; header comment', ''], []
    for i, kind in enumerate(seq):
        chunk, decl = ITP_CHUNKS[kind](i)
        lines.extend(chunk)
        declared.append(decl)
    return lines, declared


def load_itp(lines):
    from vermouth.forcefield import ForceField
    from vermouth.gmx.itp_read import read_itp
    ff = ForceField(name='verif')
    read_itp(lines, ff)
    out = []
    for block in ff.blocks.values():
        out.append({'name': block.name, 'nrexcl': block.nrexcl,
                    'nodes': [[k, c13.cv(dict(a))] for k, a in block.nodes(data=True)],
                    'interactions': c13.canon_interactions(block.interactions)})
    return out


def check_itp(seq, acc, sample=False):
    lines, declared = itp_file(seq)
    case = {'layer': 'itp', 'chunks': list(seq)}
    try:
        got = load_itp(lines)
    except Exception as err:   # pylint: disable=broad-except
        acc.case(outcome='err')
        acc.violation('itp:wellformed-rejected', 'well-formed itp rejected: %r' % (err,), case)
        return
    acc.case(nontrivial=len(seq) >= 2, outcome=('itp', [b['name'] for b in got]), sample=dict(case, file=lines) if sample else None)
    if [b['name'] for b in got] != [b['name'] for b in declared]:
        acc.violation('itp:members', 'moleculetypes loaded %r, declared %r' % ([b['name'] for b in got], [b['name'] for b in declared]), case)
        return
    diff = c13.first_difference(got, declared)
    if diff:
        acc.violation('itp:content', 'loaded moleculetype differs from the declaration at %s' % diff, case)


def itp_faults(lines):
    section = None
    natoms_of = {'bonds': 2, 'angles': 3, 'constraints': 2, 'pairs': 2, 'position_restraints': 1}
    for idx, line in enumerate(lines):
        stripped = line.split(';')[0].strip()
        if not stripped:
            continue
        if stripped.startswith('['):
            section = stripped.strip('[ ]')
            yield 'unknown-section', idx, lines[:idx] + ['[ nosuchsection ]', 'foo bar'] + lines[idx:]
            continue
        if stripped.startswith('#'):
            if stripped.startswith(('#ifdef', '#ifndef')):
                yield 'unbalanced-conditional(nested)', idx, lines[:idx + 1] + ['#ifdef INNER'] + lines[idx + 1:]
            if stripped == '#endif':
                yield 'unbalanced-conditional(missing-endif)', idx, lines[:idx] + lines[idx + 1:]
                yield 'unbalanced-conditional(extra-endif)', idx, lines[:idx + 1] + ['#endif'] + lines[idx + 1:]
            continue
        if section == 'atoms':
            yield 'duplicate-block-atom', idx, lines[:idx + 1] + [line] + lines[idx + 1:]
        if section in natoms_of or section in ('exclusions', 'virtual_sitesn'):
            tokens = stripped.split()
            positions = range(natoms_of[section]) if section in natoms_of else ([0, 2] if section == 'virtual_sitesn' else range(len(tokens)))
            for pos in positions:
                for bad in ('0', '9', 'ZZ'):
                    new = list(tokens)
                    new[pos] = bad
                    yield 'undefined-block-atom(%s)' % bad, idx, lines[:idx] + [' '.join(new)] + lines[idx + 1:]
            if section in natoms_of and natoms_of[section] >= 2:
                yield 'wrong-atom-count', idx, lines[:idx] + [tokens[0]] + lines[idx + 1:]


def check_itp_faults(seq, acc):
    lines, _ = itp_file(seq)
    for kind, idx, mutated in itp_faults(lines):
        case = {'layer': 'itp-fault', 'chunks': list(seq), 'fault': kind, 'line': idx}
        try:
            load_itp(mutated)
            outcome = 'loaded'
        except Exception:   # pylint: disable=broad-except
            outcome = 'rejected'
        acc.case(nontrivial=True, outcome=('ifault', kind, outcome),
                 sample=dict(case, mutated_line=mutated[idx]) if acc.states % 97 == 0 else None)
        if outcome == 'loaded':
            acc.violation('itp-fault-accepted:%s' % kind, 'malformed itp loaded without error: %s at line %d (%r)' % (
                kind, idx + 1, mutated[idx:idx + 2]), case)


# ----------------------------------------------------------------------------- .map

def map_forcefields():
    from vermouth.forcefield import ForceField
    from vermouth.molecule import Block

    def make(name, blocks):
        ff = ForceField(name=name)
        for bname, atoms in blocks.items():
            block = Block(force_field=ff)
            block.name = bname
            for atom in atoms:
                block.add_atom({'atomname': atom, 'resname': bname, 'resid': 1})
            ff.blocks[bname] = block
        return ff
    return {'fa': make('fa', {'X1': ['A', 'B', 'C', 'D'], 'X2': ['E', 'F'], 'X3': ['G']}),
            'fb': make('fb', {'X1': ['P', 'Q'], 'X2': ['R'], 'X3': ['S']}),
            'fc': make('fc', {'X1': ['P', 'Q'], 'X3': ['S']})}


def map_x1(i):
    lines = ['[ molecule ]', 'X1', '[ from ]', 'fa', '[ to ]', 'fb fc', '[ martini ]', 'P Q', '[ atoms ]',
             '1 A P', '2 B P P Q ; twice P', '3 C !Q', '4 D Q', '[ chiral ]', 'A B C', '[ out ]', 'D A B']
    weights = {'A': {'P': 1.0}, 'B': {'P': 2 / 3, 'Q': 1 / 3}, 'C': {'Q': 0}, 'D': {'Q': 1.0}}
    return lines, [('fa', 'fb', 'X1', weights), ('fa', 'fc', 'X1', weights)]


def map_x2(i):
    lines = ['[ molecule ]', 'X2', '[ from ]', 'fa', '[ to ]', 'fb', '[ atoms ]', '1 E R', '2 F R R !R'.replace(' !R', ''), ]
    return lines, [('fa', 'fb', 'X2', {'E': {'R': 1.0}, 'F': {'R': 1.0}})]


def map_x3(i):
    lines = ['[ molecule ]', 'X3', '[ from ]', 'fa', '[ to ]', 'fb', '[ to ]', 'fc', '[ atoms ]', '1 G S']
    return lines, [('fa', 'fb', 'X3', {'G': {'S': 1.0}}), ('fa', 'fc', 'X3', {'G': {'S': 1.0}})]


MAP_CHUNKS = {'x1': map_x1, 'x2': map_x2, 'x3': map_x3}


def check_map(seq, acc, sample=False):
    from vermouth.map_input import read_backmapping_file
    if len(set(seq)) != len(seq):
        return     # the same molecule twice between the same force fields: which one wins is not documented
    lines, declared = ['; backward style'], {}
    for i, kind in enumerate(seq):
        chunk, decl = MAP_CHUNKS[kind](i)
        lines.extend(chunk)
        for ff_from, ff_to, name, weights in decl:
            declared[(ff_from, ff_to, name)] = weights
    case = {'layer': 'map', 'chunks': list(seq)}
    try:
        loaded = read_backmapping_file(lines, map_forcefields())
    except Exception as err:   # pylint: disable=broad-except
        acc.case(outcome='err')
        acc.violation('map:wellformed-rejected', 'well-formed .map rejected: %r' % (err,), case)
        return
    got = {}
    for ff_from, inner in loaded.items():
        for ff_to, names in inner.items():
            for name, mapping in names.items():
                got[(ff_from, ff_to, name)] = {a: dict(b) for a, b in mapping.mapping.items()}
    acc.case(nontrivial=len(seq) >= 2, outcome=('map', sorted(map(str, got))), sample=dict(case, file=lines) if sample else None)
    if sorted(got) != sorted(declared):
        acc.violation('map:members', 'mappings loaded %r, declared %r' % (sorted(got), sorted(declared)), case)
        return
    for key, weights in declared.items():
        for atom, targets in weights.items():
            for bead, weight in targets.items():
                have = got[key].get(atom, {}).get(bead)
                if have is None or not abs(have - weight) <= 1e-12:
                    acc.violation('map:weights', '%r: weight of %s -> %s is %r, the file declares %r' % (key, atom, bead, have, weight), case)
                    return
        if {a: set(t) for a, t in got[key].items()} != {a: set(t) for a, t in weights.items()}:
            acc.violation('map:atoms', '%r: atoms/beads loaded %r, declared %r' % (key, got[key], weights), case)
            return


MAP_UNIVERSES = {
    'base': ({'X1': ['A', 'B', 'C', 'D'], 'X2': ['E', 'F'], 'X3': ['G']}, {'X1': ['P', 'Q'], 'X2': ['R'], 'X3': ['S']}),
    'reordered': ({'X1': ['D', 'C', 'B', 'A'], 'X2': ['F', 'E'], 'X3': ['G']}, {'X1': ['Q', 'P'], 'X2': ['R'], 'X3': ['S']}),
    'shrunk': ({'X1': ['A', 'B', 'D'], 'X2': ['E', 'F'], 'X3': ['G']}, {'X1': ['P', 'Q'], 'X2': ['R'], 'X3': ['S']}),
    'grown': ({'X1': ['Z', 'A', 'B', 'C', 'D'], 'X2': ['E', 'F'], 'X3': ['G']}, {'X1': ['P', 'Q'], 'X2': ['R'], 'X3': ['S']}),
}


def check_map_rounds(rounds, acc):
    """The same .map text read several times in ONE process, each time with newly built force fields of the same names whose
    blocks list other atoms / another atom order: every read must give what the file declares for the blocks at hand."""
    from vermouth.forcefield import ForceField
    from vermouth.molecule import Block
    from vermouth.map_input import read_backmapping_file

    def make(name, blocks):
        ff = ForceField(name=name)
        for bname, atoms in blocks.items():
            block = Block(force_field=ff)
            block.name = bname
            for atom in atoms:
                block.add_atom({'atomname': atom, 'resname': bname, 'resid': 1})
            ff.blocks[bname] = block
        return ff

    lines, declared = ['; backward style'], {}
    for i, kind in enumerate(('x1', 'x2', 'x3')):
        chunk, decl = MAP_CHUNKS[kind](i)
        lines.extend(chunk)
        for ff_from, ff_to, name, weights in decl:
            if ff_to == 'fb':
                declared[(ff_from, ff_to, name)] = weights
    for step, variant in enumerate(rounds):
        case = {'layer': 'map-rounds', 'rounds': list(rounds), 'step': step}
        from_blocks, to_blocks = MAP_UNIVERSES[variant]
        ffs = {'fa': make('fa', from_blocks), 'fb': make('fb', to_blocks)}
        try:
            loaded = read_backmapping_file(lines, ffs)
        except Exception as err:   # pylint: disable=broad-except
            acc.case(outcome='err')
            acc.violation('map:rounds-wellformed-rejected', 'read %d of %r: well-formed .map rejected: %r' % (step + 1, list(rounds), err), case)
            return
        ok = True
        for (ff_from, ff_to, name), weights in declared.items():
            mapping = loaded.get(ff_from, {}).get(ff_to, {}).get(name)
            want = {a: t for a, t in weights.items() if a in from_blocks[name]}
            if mapping is None:
                acc.violation('map:rounds-members', 'read %d of %r: mapping %s missing' % (step + 1, list(rounds), name), case)
                ok = False
                break
            got = {}
            for from_key, targets in mapping.mapping.items():
                atom = from_key if isinstance(from_key, str) else mapping.block_from.nodes[from_key]['atomname']
                for to_key, weight in targets.items():
                    bead = to_key if isinstance(to_key, str) else mapping.block_to.nodes[to_key]['atomname']
                    got.setdefault(atom, {})[bead] = weight
            flat_got = {(a, b): w for a, t in got.items() for b, w in t.items()}
            flat_want = {(a, b): w for a, t in want.items() for b, w in t.items()}
            if set(flat_got) != set(flat_want) or any(not abs(flat_got[k] - flat_want[k]) <= 1e-12 for k in flat_want):
                acc.violation('map:rounds-weights', 'read %d of %r (block atoms %r): %s loaded as %r, the file declares %r' % (
                    step + 1, list(rounds), from_blocks[name], name, got, want), case)
                ok = False
                break
        acc.case(nontrivial=step > 0, outcome=('map-rounds', step, variant, ok))
        if not ok:
            return


# ----------------------------------------------------------------------------- plumbing

def work_items(kind, items, acc):
    for n, seq in enumerate(items):
        if kind == 'itp':
            check_itp(seq, acc, sample=(n % 17 == 0))
        elif kind == 'itp-fault':
            check_itp_faults(seq, acc)
        elif kind == 'map':
            check_map(seq, acc, sample=(n % 7 == 0))
        elif kind == 'map-rounds':
            check_map_rounds(seq, acc)
        elif kind == 'mapping':
            check_mapping(seq, acc, sample=(n % 13 == 0))
        elif kind == 'mapping-fault':
            check_mapping_faults(seq, acc)


def run_layers(ctx):
    max_len = 3 if ctx.quick else int(os.environ.get('VERIF_C13_LEN', '6'))
    seqs = [s for n in range(1, max_len + 1) for s in itertools.product(ITP_CHUNKS, repeat=n)]
    acc = Acc()
    for part in common.pmap(c13.work, [('itp', chunk) for chunk in common.chunked(seqs, 8)]):
        acc += part
    ctx.layer('itp-sequences', acc)
    fseqs = [s for n in range(1, (2 if ctx.quick else 4) + 1) for s in itertools.product(ITP_CHUNKS, repeat=n)]
    acc = Acc()
    for part in common.pmap(c13.work, [('itp-fault', [s]) for s in fseqs]):
        acc += part
    ctx.layer('itp-faults', acc)
    mseqs = [s for n in range(1, 4) for s in itertools.permutations(MAP_CHUNKS, n)]
    acc = Acc()
    for part in common.pmap(c13.work, [('map', mseqs)]):
        acc += part
    ctx.layer('map-files', acc)
    rounds = [(v,) for v in MAP_UNIVERSES] + list(itertools.permutations(MAP_UNIVERSES, 2))
    if not ctx.quick:
        rounds += list(itertools.permutations(MAP_UNIVERSES, 3))
    acc = Acc()
    for part in common.pmap(c13.work, [('map-rounds', [r]) for r in rounds], fresh=True):
        acc += part
    ctx.layer('map-file-rounds', acc)
    pseqs = [s for n in range(1, max_len + 1) for s in itertools.product(MAPPING_CHUNKS, repeat=n)]
    acc = Acc()
    for part in common.pmap(c13.work, [('mapping', chunk) for chunk in common.chunked(pseqs, 8)]):
        acc += part
    ctx.layer('mapping-sequences', acc)
    acc = Acc()
    for part in common.pmap(c13.work, [('mapping-fault', [s]) for s in pseqs if len(s) <= (2 if ctx.quick else 3)]):
        acc += part
    ctx.layer('mapping-faults', acc)


def replay(case):
    acc = Acc()
    layer = case['layer']
    if layer == 'map-rounds':
        check_map_rounds(tuple(case['rounds']), acc)
        return [(s, d) for s, d, _ in acc.violations]
    seq = tuple(case['chunks'])
    if layer == 'itp':
        check_itp(seq, acc)
    elif layer == 'map':
        check_map(seq, acc)
    elif layer == 'mapping':
        check_mapping(seq, acc)
    elif layer == 'mapping-fault':
        lines = ['; new style mapping']
        for i, kind in enumerate(seq):
            lines.extend(MAPPING_CHUNKS[kind](i)[0])
        for kind, idx, mutated in mapping_faults(lines):
            if kind == case['fault'] and idx == case['line']:
                try:
                    load_mapping(mutated)
                    acc.violation('mapping-fault-accepted:%s' % kind, 'malformed .mapping loaded: %s at line %d' % (kind, idx + 1), case)
                except Exception:   # pylint: disable=broad-except
                    pass
    elif layer == 'itp-fault':
        lines, _ = itp_file(seq)
        for kind, idx, mutated in itp_faults(lines):
            if kind == case['fault'] and idx == case['line']:
                try:
                    load_itp(mutated)
                    acc.violation('itp-fault-accepted:%s' % kind, 'malformed itp loaded: %s at line %d' % (kind, idx + 1), case)
                except Exception:   # pylint: disable=broad-except
                    pass
    return [(s, d) for s, d, _ in acc.violations]


# ----------------------------------------------------------------------------- .mapping (new style mapping files)

def mapping_forcefields():
    from vermouth.forcefield import ForceField
    from vermouth.molecule import Block, Modification

    def make(name, blocks, mods):
        ff = ForceField(name=name)
        for bname, (atoms, edges) in blocks.items():
            block = Block(force_field=ff)
            block.name = bname
            for atom in atoms:
                block.add_atom({'atomname': atom, 'resname': bname, 'resid': 1})
            block.add_edges_from(edges)
            ff.blocks[bname] = block
        for mname, (atoms, edges) in mods.items():
            mod = Modification(force_field=ff)
            mod.name = mname
            for atom, ptm in atoms:
                mod.add_node(atom, atomname=atom, PTM_atom=ptm)
            mod.add_edges_from(edges)
            ff.modifications[mname] = mod
        return ff
    return {'fa': make('fa', {'X1': (['A', 'B', 'C', 'D'], [('A', 'B'), ('B', 'C'), ('C', 'D')]), 'X2': (['E', 'F'], [('E', 'F')])},
                       {'MA': ([('C', False), ('OX', True)], [('C', 'OX')])}),
            'fb': make('fb', {'X1': (['P', 'Q'], [('P', 'Q')]), 'X2': (['R'], [])}, {'MB': ([('Q', False)], [])})}


def mp_block_short(i):
    lines = ['[ block ]', '[ from ]', 'fa', '[ to ]', 'fb', '[ from blocks ]', 'X1', '[ to blocks ]', 'X1', '[ mapping ]',
             'A P', 'B P 2 ; weight', 'B Q', 'C Q 0', 'D Q', '[ reference atoms ]', 'P A']
    decl = {'type': 'block', 'names': ['X1'], 'ff_from': 'fa', 'ff_to': 'fb',
            'from_nodes': [['X1', 1, 'A'], ['X1', 1, 'B'], ['X1', 1, 'C'], ['X1', 1, 'D']],
            'from_edges': [['A1', 'B1'], ['B1', 'C1'], ['C1', 'D1']],
            'to_nodes': [['X1', 1, 'P'], ['X1', 1, 'Q']], 'to_edges': [['P1', 'Q1']],
            'mapping': {'A1': {'P1': 1}, 'B1': {'P1': 2, 'Q1': 1}, 'C1': {'Q1': 0}, 'D1': {'Q1': 1}},
            'references': {'P1': 'A1'}}
    return lines, decl


def mp_block_two_residues(i):
    lines = ['[ block ]', '[ from ]', 'fa', '[ to ]', 'fb', '[ from blocks ]', 'X1#1 X2#2', '[ to blocks ]', 'X1',
             '[ from edges ]', 'X1#1:D X2#2:E', '[ mapping ]', 'X1#1:A P', 'B P', 'C Q', 'D Q', 'X2#2:E Q', 'F Q']
    decl = {'type': 'block', 'names': ['X1', 'X2'], 'ff_from': 'fa', 'ff_to': 'fb',
            'from_nodes': [['X1', 1, 'A'], ['X1', 1, 'B'], ['X1', 1, 'C'], ['X1', 1, 'D'], ['X2', 2, 'E'], ['X2', 2, 'F']],
            'from_edges': [['A1', 'B1'], ['B1', 'C1'], ['C1', 'D1'], ['D1', 'E2'], ['E2', 'F2']],
            'to_nodes': [['X1', 1, 'P'], ['X1', 1, 'Q']], 'to_edges': [['P1', 'Q1']],
            'mapping': {'A1': {'P1': 1}, 'B1': {'P1': 1}, 'C1': {'Q1': 1}, 'D1': {'Q1': 1}, 'E2': {'Q1': 1}, 'F2': {'Q1': 1}},
            'references': {}}
    return lines, decl


def mp_block_longhand(i):
    lines = ['[ block ]', '[ from ]', 'fa', '[ to ]', 'fb', '[ from blocks ]', 'first {"resname": "X2", "resid": 1}',
             '[ to blocks ]', 'target {"resname": "X2", "resid": 1}', '[ mapping ]', 'first:E target:R', 'F R 3']
    decl = {'type': 'block', 'names': ['X2'], 'ff_from': 'fa', 'ff_to': 'fb',
            'from_nodes': [['X2', 1, 'E'], ['X2', 1, 'F']], 'from_edges': [['E1', 'F1']],
            'to_nodes': [['X2', 1, 'R']], 'to_edges': [],
            'mapping': {'E1': {'R1': 1}, 'F1': {'R1': 3}}, 'references': {}}
    return lines, decl


def mp_modification(i):
    lines = ['[ modification ]', '[ from ]', 'fa', '[ to ]', 'fb', '[ from blocks ]', 'MA', '[ to blocks ]', 'MB',
             '[ from nodes ]', 'B', '[ from edges ]', 'B C', '[ mapping ]', 'C Q', 'OX Q', 'B Q 0']
    decl = {'type': 'modification', 'names': ['MA'], 'ff_from': 'fa', 'ff_to': 'fb',
            'from_nodes': [[None, 1, 'B'], [None, 1, 'C'], [None, 1, 'OX']], 'from_edges': [['B1', 'C1'], ['C1', 'OX1']],
            'to_nodes': [[None, 1, 'Q']], 'to_edges': [],
            'mapping': {'C1': {'Q1': 1}, 'OX1': {'Q1': 1}, 'B1': {'Q1': 0}}, 'references': {}}
    return lines, decl


def mp_block_extra_nodes(i):
    """Two identifiers in one direction; extra nodes declared in [ from nodes ], qualified lines with attributes followed by
    bare names: a bare name takes the attributes of the last used IDENTIFIER, not those written on the line before it."""
    lines = ['[ block ]', '[ from ]', 'fa', '[ to ]', 'fb', '[ from blocks ]', 'X1#1 X2#2', '[ to blocks ]', 'X1',
             '[ from nodes ]', 'X1#1:ZA {"element": "N", "charge": -1}', 'ZB', 'X2#2:ZC {"element": "O"}', 'ZD',
             '[ from edges ]', 'X1#1:D X2#2:E', 'X1#1:A X1#1:ZA', 'X1#1:ZA X1#1:ZB', 'X2#2:F X2#2:ZC', 'X2#2:ZC X2#2:ZD',
             '[ mapping ]', 'X1#1:A P', 'B P', 'C Q', 'D Q', 'ZA P', 'ZB P', 'X2#2:E Q', 'F Q', 'ZC Q', 'ZD Q']
    decl = {'type': 'block', 'names': ['X1', 'X2'], 'ff_from': 'fa', 'ff_to': 'fb',
            'from_nodes': [['X1', 1, 'A'], ['X1', 1, 'B'], ['X1', 1, 'C'], ['X1', 1, 'D'], ['X2', 2, 'E'], ['X2', 2, 'F'],
                           ['X1', 1, 'ZA'], ['X1', 1, 'ZB'], ['X2', 2, 'ZC'], ['X2', 2, 'ZD']],
            'from_edges': [['A1', 'B1'], ['B1', 'C1'], ['C1', 'D1'], ['D1', 'E2'], ['E2', 'F2'], ['A1', 'ZA1'], ['ZA1', 'ZB1'], ['F2', 'ZC2'], ['ZC2', 'ZD2']],
            'to_nodes': [['X1', 1, 'P'], ['X1', 1, 'Q']], 'to_edges': [['P1', 'Q1']],
            'mapping': {'A1': {'P1': 1}, 'B1': {'P1': 1}, 'C1': {'Q1': 1}, 'D1': {'Q1': 1}, 'ZA1': {'P1': 1}, 'ZB1': {'P1': 1},
                        'E2': {'Q1': 1}, 'F2': {'Q1': 1}, 'ZC2': {'Q1': 1}, 'ZD2': {'Q1': 1}},
            'references': {}, 'from_extra': [['ZA1', 'N', -1], ['ZC2', 'O', None]]}
    return lines, decl


MAPPING_CHUNKS = {'short': mp_block_short, 'two-res': mp_block_two_residues, 'long': mp_block_longhand, 'mod': mp_modification,
                  'extra-nodes': mp_block_extra_nodes}


def canon_mapping(mapping):
    def tag(graph, key):
        node = graph.nodes[key]
        return '%s%s' % (node.get('atomname'), node.get('resid'))
    bf, bt = mapping.block_from, mapping.block_to
    return {
        'type': mapping.type, 'names': list(mapping.names), 'ff_from': mapping.ff_from, 'ff_to': mapping.ff_to,
        'from_nodes': sorted([bf.nodes[k].get('resname'), bf.nodes[k].get('resid'), bf.nodes[k].get('atomname')] for k in bf.nodes),
        'from_edges': sorted(sorted((tag(bf, a), tag(bf, b))) for a, b in bf.edges),
        'to_nodes': sorted([bt.nodes[k].get('resname'), bt.nodes[k].get('resid'), bt.nodes[k].get('atomname')] for k in bt.nodes),
        'to_edges': sorted(sorted((tag(bt, a), tag(bt, b))) for a, b in bt.edges),
        'mapping': {tag(bf, a): {tag(bt, b): w for b, w in targets.items()} for a, targets in mapping.mapping.items()},
        'references': {tag(bt, t): tag(bf, f) for t, f in mapping.references.items()},
        'from_extra': sorted([tag(bf, k), bf.nodes[k].get('element'), bf.nodes[k].get('charge')] for k in bf.nodes
                             if bf.nodes[k].get('element') is not None or bf.nodes[k].get('charge') is not None),
    }


def sort_decl(decl):
    out = dict(decl)
    out['from_nodes'] = sorted(decl['from_nodes'], key=repr)
    out['to_nodes'] = sorted(decl['to_nodes'], key=repr)
    out['from_edges'] = sorted(sorted(e) for e in decl['from_edges'])
    out['from_extra'] = sorted(decl.get('from_extra', []))
    return out


def load_mapping(lines):
    from vermouth.map_parser import MappingDirector
    director = MappingDirector(mapping_forcefields())
    return [canon_mapping(m) for m in director.parse(iter(lines))]


def check_mapping(seq, acc, sample=False):
    lines, declared = ['; new style mapping'], []
    for i, kind in enumerate(seq):
        chunk, decl = MAPPING_CHUNKS[kind](i)
        lines.extend(chunk)
        declared.append(sort_decl(decl))
    case = {'layer': 'mapping', 'chunks': list(seq)}
    try:
        got = load_mapping(lines)
    except Exception as err:   # pylint: disable=broad-except
        acc.case(outcome='err')
        acc.violation('mapping:wellformed-rejected', 'well-formed .mapping rejected: %r' % (err,), case)
        return
    for item in got:
        item['from_nodes'] = sorted(item['from_nodes'], key=repr)
        item['to_nodes'] = sorted(item['to_nodes'], key=repr)
    acc.case(nontrivial=len(seq) >= 2, outcome=('mapping', [g['names'] for g in got]), sample=dict(case, file=lines) if sample else None)
    if [(g['type'], g['names']) for g in got] != [(d['type'], d['names']) for d in declared]:
        acc.violation('mapping:members', 'mappings loaded %r, declared %r' % ([(g['type'], g['names']) for g in got],
                                                                               [(d['type'], d['names']) for d in declared]), case)
        return
    diff = c13.first_difference(got, declared)
    if diff:
        sub = 'weights' if '.mapping' in diff else ('references' if '.references' in diff else 'content')
        acc.violation('mapping:%s' % sub, 'loaded mapping differs from the declaration at %s' % diff, case)


def mapping_faults(lines):
    section = None
    for idx, line in enumerate(lines):
        stripped = line.split(';')[0].strip()
        if not stripped:
            continue
        if stripped.startswith('['):
            section = stripped.strip('[ ]')
            yield 'unknown-section', idx, lines[:idx] + ['[ nosuchsection ]', 'foo bar'] + lines[idx:]
            continue
        tokens = stripped.split()
        if section == 'mapping':
            yield 'undefined-atom(from)', idx, lines[:idx] + ['ZZ ' + ' '.join(tokens[1:])] + lines[idx + 1:]
            yield 'undefined-atom(to)', idx, lines[:idx] + [tokens[0] + ' ZZ'] + lines[idx + 1:]
        if section in ('from blocks', 'to blocks') and '{' not in stripped:
            yield 'unknown-block', idx, lines[:idx] + ['NOPE'] + lines[idx + 1:]
        if section == 'from edges':
            yield 'undefined-atom(edge)', idx, lines[:idx] + [tokens[0] + ' ZZ'] + lines[idx + 1:]
        if section == 'reference atoms':
            yield 'undefined-atom(reference)', idx, lines[:idx] + [tokens[0] + ' ZZ'] + lines[idx + 1:]
    yield 'old-style-section', 0, ['[ molecule ]', 'X1'] + lines


def check_mapping_faults(seq, acc):
    lines = ['; new style mapping']
    for i, kind in enumerate(seq):
        lines.extend(MAPPING_CHUNKS[kind](i)[0])
    for kind, idx, mutated in mapping_faults(lines):
        case = {'layer': 'mapping-fault', 'chunks': list(seq), 'fault': kind, 'line': idx}
        try:
            load_mapping(mutated)
            outcome = 'loaded'
        except Exception:   # pylint: disable=broad-except
            outcome = 'rejected'
        acc.case(nontrivial=True, outcome=('mfault', kind, outcome),
                 sample=dict(case, mutated_line=mutated[idx]) if acc.states % 41 == 0 else None)
        if outcome == 'loaded':
            acc.violation('mapping-fault-accepted:%s' % kind, 'malformed .mapping loaded without error: %s at line %d (%r)' % (
                kind, idx + 1, mutated[idx:idx + 2]), case)
