"""
C13 layers for .itp (read_itp) and .map (read_backmapping_file) files.
Same scheme as the .ff layers: chunks carry their text and their declared content.
"""
import itertools

from mc import common
from mc.common import Acc
from props import c13


# ----------------------------------------------------------------------------- ITP

def itp_rich(i):
    name = 'IA%d' % i
    lines = [
        '[ moleculetype ]', '%s 3' % name,
        '[ atoms ]',
        '1 P1 1 %s BB 1' % name,
        '2 C1 1 %s SC1 2 0.5' % name,
        '3 C2 2 %s SC2 3 -1.0 36.0' % name,
        '[ bonds ]',
        '1 2 1 0.25 1000',
        '#ifdef FLEX',
        '2 3 1 0.3 500',
        '#else',
        '[ constraints ]',
        '2 3 1 0.3',
        '#endif',
        '[ angles ]',
        '1 2 3 2 120 50 ; comment',
        '[ exclusions ]',
        '1 2 3',
        '[ virtual_sitesn ]',
        '3 1 1 2',
        '#ifndef NOPOSRES',
        '[ position_restraints ]',
        '1 1 1000 1000 1000',
        '#endif',
        '#define SOMETHING 1',
    ]
    nodes = [
        [0, {'index': 1, 'atomname': 'BB', 'atype': 'P1', 'resname': name, 'resid': 1, 'charge_group': 1}],
        [1, {'index': 2, 'atomname': 'SC1', 'atype': 'C1', 'resname': name, 'resid': 1, 'charge_group': 2, 'charge': 0.5}],
        [2, {'index': 3, 'atomname': 'SC2', 'atype': 'C2', 'resname': name, 'resid': 2, 'charge_group': 3, 'charge': -1.0, 'mass': 36.0}],
    ]
    declared = {
        'name': name, 'nrexcl': 3, 'nodes': nodes,
        'interactions': {
            'bonds': [[[0, 1], ['1', '0.25', '1000'], {}], [[1, 2], ['1', '0.3', '500'], {'ifdef': 'FLEX'}]],
            'constraints': [[[1, 2], ['1', '0.3'], {'ifndef': 'FLEX'}]],
            'angles': [[[0, 1, 2], ['2', '120', '50'], {}]],
            'exclusions': [[[0, 1, 2], [], {}]],
            'virtual_sitesn': [[[2, 0, 1], ['1'], {}]],
            'position_restraints': [[[0], ['1', '1000', '1000', '1000'], {'ifndef': 'NOPOSRES'}]],
        },
    }
    return lines, declared


def itp_two(i):
    name = 'IB%d' % i
    lines = ['[ moleculetype ]', '%s 1' % name, '[ atoms ]',
             '1 Q1 1 %s NA 1 1.0 23.0' % name, '2 Q2 1 %s CL 2 -1.0 35.0' % name,
             '[ pairs ]', '1 2 1', '[ dihedral_restraints ]']
    declared = {'name': name, 'nrexcl': 1,
                'nodes': [[0, {'index': 1, 'atomname': 'NA', 'atype': 'Q1', 'resname': name, 'resid': 1, 'charge_group': 1, 'charge': 1.0, 'mass': 23.0}],
                          [1, {'index': 2, 'atomname': 'CL', 'atype': 'Q2', 'resname': name, 'resid': 1, 'charge_group': 2, 'charge': -1.0, 'mass': 35.0}]],
                'interactions': {'pairs': [[[0, 1], ['1'], {}]]}}
    return lines, declared


def itp_one(i):
    name = 'IC%d' % i
    lines = ['[ moleculetype ]', '%s 0' % name, '[ atoms ]', '1 W 1 %s W 1' % name]
    declared = {'name': name, 'nrexcl': 0,
                'nodes': [[0, {'index': 1, 'atomname': 'W', 'atype': 'W', 'resname': name, 'resid': 1, 'charge_group': 1}]],
                'interactions': {}}
    return lines, declared


ITP_CHUNKS = {'rich': itp_rich, 'two': itp_two, 'one': itp_one}


def itp_file(seq):
    lines, declared = ['; header comment', ''], []
    for i, kind in enumerate(seq):
        chunk, decl = ITP_CHUNKS[kind](i)
        lines.extend(chunk)
        declared.append(decl)
    return lines, declared


def load_itp(lines):
    from vermouth.forcefield import ForceField
    from vermouth.gmx.itp_read import read_itp
    ff = ForceField(name='verif')
    read_itp(lines, ff)
    out = []
    for block in ff.blocks.values():
        out.append({'name': block.name, 'nrexcl': block.nrexcl,
                    'nodes': [[k, c13.cv(dict(a))] for k, a in block.nodes(data=True)],
                    'interactions': c13.canon_interactions(block.interactions)})
    return out


def check_itp(seq, acc, sample=False):
    lines, declared = itp_file(seq)
    case = {'layer': 'itp', 'chunks': list(seq)}
    try:
        got = load_itp(lines)
    except Exception as err:   # pylint: disable=broad-except
        acc.case(outcome='err')
        acc.violation('itp:wellformed-rejected', 'well-formed itp rejected: %r' % (err,), case)
        return
    acc.case(nontrivial=len(seq) >= 2, outcome=('itp', [b['name'] for b in got]), sample=dict(case, file=lines) if sample else None)
    if [b['name'] for b in got] != [b['name'] for b in declared]:
        acc.violation('itp:members', 'moleculetypes loaded %r, declared %r' % ([b['name'] for b in got], [b['name'] for b in declared]), case)
        return
    diff = c13.first_difference(got, declared)
    if diff:
        acc.violation('itp:content', 'loaded moleculetype differs from the declaration at %s' % diff, case)


def itp_faults(lines):
    section = None
    natoms_of = {'bonds': 2, 'angles': 3, 'constraints': 2, 'pairs': 2, 'position_restraints': 1}
    for idx, line in enumerate(lines):
        stripped = line.split(';')[0].strip()
        if not stripped:
            continue
        if stripped.startswith('['):
            section = stripped.strip('[ ]')
            yield 'unknown-section', idx, lines[:idx] + ['[ nosuchsection ]', 'foo bar'] + lines[idx:]
            continue
        if stripped.startswith('#'):
            if stripped.startswith(('#ifdef', '#ifndef')):
                yield 'unbalanced-conditional(nested)', idx, lines[:idx + 1] + ['#ifdef INNER'] + lines[idx + 1:]
            if stripped == '#endif':
                yield 'unbalanced-conditional(missing-endif)', idx, lines[:idx] + lines[idx + 1:]
                yield 'unbalanced-conditional(extra-endif)', idx, lines[:idx + 1] + ['#endif'] + lines[idx + 1:]
            continue
        if section == 'atoms':
            yield 'duplicate-block-atom', idx, lines[:idx + 1] + [line] + lines[idx + 1:]
        if section in natoms_of or section in ('exclusions', 'virtual_sitesn'):
            tokens = stripped.split()
            positions = range(natoms_of[section]) if section in natoms_of else ([0, 2] if section == 'virtual_sitesn' else range(len(tokens)))
            for pos in positions:
                for bad in ('0', '9', 'ZZ'):
                    new = list(tokens)
                    new[pos] = bad
                    yield 'undefined-block-atom(%s)' % bad, idx, lines[:idx] + [' '.join(new)] + lines[idx + 1:]
            if section in natoms_of and natoms_of[section] >= 2:
                yield 'wrong-atom-count', idx, lines[:idx] + [tokens[0]] + lines[idx + 1:]


def check_itp_faults(seq, acc):
    lines, _ = itp_file(seq)
    for kind, idx, mutated in itp_faults(lines):
        case = {'layer': 'itp-fault', 'chunks': list(seq), 'fault': kind, 'line': idx}
        try:
            load_itp(mutated)
            outcome = 'loaded'
        except Exception:   # pylint: disable=broad-except
            outcome = 'rejected'
        acc.case(nontrivial=True, outcome=('ifault', kind, outcome),
                 sample=dict(case, mutated_line=mutated[idx]) if acc.states % 97 == 0 else None)
        if outcome == 'loaded':
            acc.violation('itp-fault-accepted:%s' % kind, 'malformed itp loaded without error: %s at line %d (%r)' % (
                kind, idx + 1, mutated[idx:idx + 2]), case)


# ----------------------------------------------------------------------------- .map

def map_forcefields():
    from vermouth.forcefield import ForceField
    from vermouth.molecule import Block

    def make(name, blocks):
        ff = ForceField(name=name)
        for bname, atoms in blocks.items():
            block = Block(force_field=ff)
            block.name = bname
            for atom in atoms:
                block.add_atom({'atomname': atom, 'resname': bname, 'resid': 1})
            ff.blocks[bname] = block
        return ff
    return {'fa': make('fa', {'X1': ['A', 'B', 'C', 'D'], 'X2': ['E', 'F'], 'X3': ['G']}),
            'fb': make('fb', {'X1': ['P', 'Q'], 'X2': ['R'], 'X3': ['S']}),
            'fc': make('fc', {'X1': ['P', 'Q'], 'X3': ['S']})}


def map_x1(i):
    lines = ['[ molecule ]', 'X1', '[ from ]', 'fa', '[ to ]', 'fb fc', '[ martini ]', 'P Q', '[ atoms ]',
             '1 A P', '2 B P P Q ; twice P', '3 C !Q', '4 D Q', '[ chiral ]', 'A B C', '[ out ]', 'D A B']
    weights = {'A': {'P': 1.0}, 'B': {'P': 2 / 3, 'Q': 1 / 3}, 'C': {'Q': 0}, 'D': {'Q': 1.0}}
    return lines, [('fa', 'fb', 'X1', weights), ('fa', 'fc', 'X1', weights)]


def map_x2(i):
    lines = ['[ molecule ]', 'X2', '[ from ]', 'fa', '[ to ]', 'fb', '[ atoms ]', '1 E R', '2 F R R !R'.replace(' !R', ''), ]
    return lines, [('fa', 'fb', 'X2', {'E': {'R': 1.0}, 'F': {'R': 1.0}})]


def map_x3(i):
    lines = ['[ molecule ]', 'X3', '[ from ]', 'fa', '[ to ]', 'fb', '[ to ]', 'fc', '[ atoms ]', '1 G S']
    return lines, [('fa', 'fb', 'X3', {'G': {'S': 1.0}}), ('fa', 'fc', 'X3', {'G': {'S': 1.0}})]


MAP_CHUNKS = {'x1': map_x1, 'x2': map_x2, 'x3': map_x3}


def check_map(seq, acc, sample=False):
    from vermouth.map_input import read_backmapping_file
    if len(set(seq)) != len(seq):
        return     # the same molecule twice between the same force fields: which one wins is not documented
    lines, declared = ['; backward style'], {}
    for i, kind in enumerate(seq):
        chunk, decl = MAP_CHUNKS[kind](i)
        lines.extend(chunk)
        for ff_from, ff_to, name, weights in decl:
            declared[(ff_from, ff_to, name)] = weights
    case = {'layer': 'map', 'chunks': list(seq)}
    try:
        loaded = read_backmapping_file(lines, map_forcefields())
    except Exception as err:   # pylint: disable=broad-except
        acc.case(outcome='err')
        acc.violation('map:wellformed-rejected', 'well-formed .map rejected: %r' % (err,), case)
        return
    got = {}
    for ff_from, inner in loaded.items():
        for ff_to, names in inner.items():
            for name, mapping in names.items():
                got[(ff_from, ff_to, name)] = {a: dict(b) for a, b in mapping.mapping.items()}
    acc.case(nontrivial=len(seq) >= 2, outcome=('map', sorted(map(str, got))), sample=dict(case, file=lines) if sample else None)
    if sorted(got) != sorted(declared):
        acc.violation('map:members', 'mappings loaded %r, declared %r' % (sorted(got), sorted(declared)), case)
        return
    for key, weights in declared.items():
        for atom, targets in weights.items():
            for bead, weight in targets.items():
                have = got[key].get(atom, {}).get(bead)
                if have is None or abs(have - weight) > 1e-12:
                    acc.violation('map:weights', '%r: weight of %s -> %s is %r, the file declares %r' % (key, atom, bead, have, weight), case)
                    return
        if {a: set(t) for a, t in got[key].items()} != {a: set(t) for a, t in weights.items()}:
            acc.violation('map:atoms', '%r: atoms/beads loaded %r, declared %r' % (key, got[key], weights), case)
            return


# ----------------------------------------------------------------------------- plumbing

def work_items(kind, items, acc):
    for n, seq in enumerate(items):
        if kind == 'itp':
            check_itp(seq, acc, sample=(n % 17 == 0))
        elif kind == 'itp-fault':
            check_itp_faults(seq, acc)
        elif kind == 'map':
            check_map(seq, acc, sample=(n % 7 == 0))


def run_layers(ctx):
    max_len = 3 if ctx.quick else 4
    seqs = [s for n in range(1, max_len + 1) for s in itertools.product(ITP_CHUNKS, repeat=n)]
    acc = Acc()
    for part in common.pmap(c13.work, [('itp', chunk) for chunk in common.chunked(seqs, 8)]):
        acc += part
    ctx.layer('itp-sequences', acc)
    fseqs = [s for n in range(1, (2 if ctx.quick else 3) + 1) for s in itertools.product(ITP_CHUNKS, repeat=n)]
    acc = Acc()
    for part in common.pmap(c13.work, [('itp-fault', [s]) for s in fseqs]):
        acc += part
    ctx.layer('itp-faults', acc)
    mseqs = [s for n in range(1, 4) for s in itertools.permutations(MAP_CHUNKS, n)]
    acc = Acc()
    for part in common.pmap(c13.work, [('map', mseqs)]):
        acc += part
    ctx.layer('map-files', acc)


def replay(case):
    acc = Acc()
    layer = case['layer']
    seq = tuple(case['chunks'])
    if layer == 'itp':
        check_itp(seq, acc)
    elif layer == 'map':
        check_map(seq, acc)
    elif layer == 'itp-fault':
        lines, _ = itp_file(seq)
        for kind, idx, mutated in itp_faults(lines):
            if kind == case['fault'] and idx == case['line']:
                try:
                    load_itp(mutated)
                    acc.violation('itp-fault-accepted:%s' % kind, 'malformed itp loaded: %s at line %d' % (kind, idx + 1), case)
                except Exception:   # pylint: disable=broad-except
                    pass
    return [(s, d) for s, d, _ in acc.violations]
