"""C13 layers for .itp / .map / .mapping — filled below."""
def run_layers(ctx):
    pass
def work_items(kind, items, acc):
    pass
def replay(case):
    return []
