"""
C10 — guessed bonds obey the stated criteria and never split or lose residues.

Layer "pairs"  : every ordered pair of elements from {H, C, N, O, S, Se, X(no radius)} x distance in
                 {0.5, 1-eps, 1+eps, 1.5} x threshold x relation {same residue, other residue of the same
                 input molecule, other input molecule with the SAME chain/resname/resid, other input molecule
                 with other ids} x reference-block knowledge {bonded in the block, non-bond of the block, one
                 atom unknown to the block, residue unknown, duplicated atom name} x fudge {0.8, 1.0, 1.2} x
                 mode {name, distance, both, none} x pre-existing bond or not.
Layer "systems": 3-4 atoms in 2-3 residues on a line, all assignments of gaps from {bonding, non-bonding},
                 all atom orders, with and without identical ids across two input molecules.
Oracle: the conjunction of the statement evaluated on all pairs with the Bondi radii as published (nm);
        partition invariants (atoms and pre-existing bonds kept, molecules partition the atoms, residues
        whole, residue graph of each molecule connected).
"""
import itertools
import os
import shutil

from mc import common
from mc.common import Acc

RULE = ("pairs: full product of the stated menus; systems: all gap assignments x all atom orders; distinct = distinct "
        "tuples; non-trivial = distance within 1.5x of the threshold in a distance mode, or a name-mode case")
ASSUMPTIONS = ["Bondi radii (nm): H 0.120 (Rowland-Taylor), C 0.170, N 0.155, O 0.152, S 0.180, Se 0.190",
               "the non-bond conjunct applies where a reference block is consulted (name mode on and the residue resolved by name)",
               "residue identity includes the input molecule (atoms of different input molecules are never one residue)",
               "distances are placed +-1e-6 (relative) around the threshold, never on it"]

RADII = {'H': 0.120, 'C': 0.170, 'N': 0.155, 'O': 0.152, 'S': 0.180, 'Se': 0.190}
ELEMENTS = ['H', 'C', 'N', 'O', 'S', 'Se', 'X']
EPS = 1e-6


FF_EDGES = {
    'normal': {'RB': [('A1', 'A2'), ('A2', 'A3')], 'RN': [('A1', 'A3'), ('A2', 'A3')], 'S1': [('A1', 'A4')], 'S2': [('A2', 'A4')]},
    # a second force field with the SAME block names but the bonded / non-bonded roles of A1-A2 exchanged
    'swapped': {'RB': [('A1', 'A3'), ('A2', 'A3')], 'RN': [('A1', 'A2'), ('A2', 'A3')], 'S1': [('A1', 'A4')], 'S2': [('A2', 'A4')]},
}


def force_field(variant='normal'):
    """Blocks: RB has A1-A2 bonded; RN has A1 and A2 both bonded to A3 only (A1-A2 is a non-bond);
    single-atom blocks S1, S2 for 'other residue' cases."""
    from vermouth.forcefield import ForceField
    from vermouth.molecule import Block
    ff = ForceField(name='c10ff_' + variant)
    edges_of = FF_EDGES[variant]

    def block(name, atoms, edges):
        blk = Block(force_field=ff)
        blk.name = name
        for atom in atoms:
            blk.add_atom({'atomname': atom, 'resname': name, 'resid': 1})
        for a, b in edges:
            blk.add_edge(a, b)
        ff.blocks[name] = blk
    block('RB', ['A1', 'A2', 'A3'], edges_of['RB'])
    block('RN', ['A1', 'A2', 'A3'], edges_of['RN'])
    block('S1', ['A1', 'A4'], edges_of['S1'])
    block('S2', ['A2', 'A4'], edges_of['S2'])
    return ff


def threshold(e1, e2, fudge):
    if e1 not in RADII or e2 not in RADII:
        return None
    return fudge * 0.5 * (RADII[e1] + RADII[e2])


def expected_bond(a, b, dist, fudge, mode, name_resolved, block_edges, block_atoms, pre):
    """The conjunction of the statement for one pair. a/b: dicts with element, res (residue identity tuple incl.
    input molecule), atomname, resname."""
    if pre:
        return True
    name_on = mode in ('name', 'both')
    dist_on = mode in ('distance', 'both')
    same_res = a['res'] == b['res']
    consulted = name_on and same_res and name_resolved.get(a['res'], False)
    if consulted:
        known = a['atomname'] in block_atoms[a['resname']] and b['atomname'] in block_atoms[b['resname']]
        if known and frozenset((a['atomname'], b['atomname'])) in block_edges[a['resname']]:
            return True          # name-based bond, whatever the distance
        if known:
            return False         # a non-bond of the reference block
    if not dist_on:
        return False
    thr = threshold(a['element'], b['element'], fudge)
    if thr is None:
        return False
    if a['element'] == 'H' and b['element'] == 'H':
        return False
    if not same_res and 'H' in (a['element'], b['element']):
        return False
    return dist <= thr


def run_make_bonds(molecule_specs, fudge, mode, pre_edges, variant='normal'):
    """molecule_specs: list of lists of atom dicts (tag, element, atomname, resname, resid, chain, position).
    Returns (list of output molecules, tag -> (out molecule index, node))."""
    import numpy as np
    import vermouth
    from vermouth.processors.make_bonds import MakeBonds
    system = vermouth.System(force_field=force_field(variant))
    for spec in molecule_specs:
        mol = vermouth.molecule.Molecule(force_field=system.force_field)
        for idx, atom in enumerate(spec):
            mol.add_node(idx, tag=atom['tag'], element=atom['element'], atomname=atom['atomname'], resname=atom['resname'],
                         resid=atom['resid'], chain=atom['chain'], position=np.array(atom['position'], dtype=float))
        system.molecules.append(mol)
    tags = {atom['tag']: (m, i) for m, spec in enumerate(molecule_specs) for i, atom in enumerate(spec)}
    for t1, t2 in pre_edges:
        (m1, i1), (m2, i2) = tags[t1], tags[t2]
        assert m1 == m2
        system.molecules[m1].add_edge(i1, i2)
    with common.LogCapture() as log:
        MakeBonds(allow_name=mode in ('name', 'both'), allow_dist=mode in ('distance', 'both'), fudge=fudge).run_system(system)
    return system.molecules, log


def evaluate(molecule_specs, fudge, mode, pre_edges, case, acc, nontrivial=True, sample=False, variant='normal'):
    import numpy as np
    ff_edges = {name: {frozenset(e) for e in edges} for name, edges in FF_EDGES[variant].items()}
    ff_atoms = {'RB': {'A1', 'A2', 'A3'}, 'RN': {'A1', 'A2', 'A3'}, 'S1': {'A1', 'A4'}, 'S2': {'A2', 'A4'}}
    atoms = {}
    residues = {}
    for m, spec in enumerate(molecule_specs):
        for atom in spec:
            info = dict(atom)
            info['res'] = (m, atom['chain'], atom['resid'], atom['resname'])
            atoms[atom['tag']] = info
            residues.setdefault(info['res'], []).append(info)
    name_resolved = {}
    for res, members in residues.items():
        names = [a['atomname'] for a in members]
        name_resolved[res] = res[3] in ff_atoms and len(set(names)) == len(names)
    try:
        out, log = run_make_bonds(molecule_specs, fudge, mode, pre_edges, variant)
    except Exception as err:   # pylint: disable=broad-except
        acc.case(outcome='exc')
        acc.violation('c10:exception', 'MakeBonds raised %r' % (err,), case)
        return
    got_edges = set()
    where = {}
    seen_tags = []
    for midx, mol in enumerate(out):
        for node, data in mol.nodes(data=True):
            where[data['tag']] = midx
            seen_tags.append(data['tag'])
        for a, b in mol.edges:
            got_edges.add(frozenset((mol.nodes[a]['tag'], mol.nodes[b]['tag'])))
    problems = []
    if sorted(seen_tags) != sorted(atoms):
        problems.append(('c10:atoms-lost-or-duplicated', 'atoms in %r, atoms out %r' % (sorted(atoms), sorted(seen_tags))))
    pre = {frozenset(e) for e in pre_edges}
    if not problems and not pre <= got_edges:
        problems.append(('c10:pre-existing-bond-lost', 'pre-existing bonds %r missing' % (sorted(map(sorted, pre - got_edges)),)))
    if not problems:
        for t1, t2 in itertools.combinations(sorted(atoms), 2):
            a, b = atoms[t1], atoms[t2]
            dist = float(np.linalg.norm(np.array(a['position']) - np.array(b['position'])))
            want = expected_bond(a, b, dist, fudge, mode, name_resolved, ff_edges, ff_atoms, frozenset((t1, t2)) in pre)
            have = frozenset((t1, t2)) in got_edges
            if want != have:
                thr = threshold(a['element'], b['element'], fudge)
                kind = 'missing-bond' if want else 'unjustified-bond'
                why = ''
                if not want and have:
                    if a['element'] == 'H' and b['element'] == 'H':
                        kind += '(H-H)'
                    elif a['res'] != b['res'] and 'H' in (a['element'], b['element']):
                        kind += '(H-bridge)'
                    elif thr is None:
                        kind += '(no-radius)'
                    elif dist > thr:
                        kind += '(too-far)'
                    else:
                        kind += '(block-non-bond)'
                problems.append(('c10:%s' % kind, 'pair %s(%s)-%s(%s) at %.6f nm (threshold %s, fudge %s, mode %s): bond %s, criteria say %s' % (
                    t1, a['element'], t2, b['element'], dist, thr, fudge, mode, have, want)))
                break
    if not problems:
        # partition invariants
        for res, members in residues.items():
            if len({where[a['tag']] for a in members}) != 1:
                problems.append(('c10:residue-split', 'residue %r is spread over several output molecules' % (res,)))
                break
    if not problems:
        import networkx as nx
        for midx, mol in enumerate(out):
            resgraph = nx.Graph()
            for node, data in mol.nodes(data=True):
                resgraph.add_node(atoms[data['tag']]['res'])
            for a, b in mol.edges:
                ra, rb = atoms[mol.nodes[a]['tag']]['res'], atoms[mol.nodes[b]['tag']]['res']
                if ra != rb:
                    resgraph.add_edge(ra, rb)
            if len(resgraph) and not nx.is_connected(resgraph):
                problems.append(('c10:molecule-not-connected', 'output molecule %d holds residues that are not connected: %r' % (midx, sorted(resgraph.nodes))))
                break
    acc.case(nontrivial=nontrivial, outcome=(len(out), tuple(sorted(tuple(sorted(e)) for e in got_edges)), mode),
             sample=dict(case, bonds=sorted(sorted(e) for e in got_edges), molecules=len(out)) if sample else None)
    for sig, desc in problems[:1]:
        acc.violation(sig, desc, case)


# ----------------------------------------------------------------------------- pair level

RELATIONS = ['same-res', 'other-res', 'other-mol-same-ids', 'other-mol']
KNOWLEDGE = ['bonded', 'non-bond', 'one-unknown', 'res-unknown', 'dup-name']


def pair_specs(e1, e2, factor, relation, knowledge, fudge):
    thr = threshold(e1, e2, fudge)
    base = thr if thr is not None else 0.15
    dist = base * factor
    a = {'tag': 'a', 'element': e1, 'position': (0.0, 0.0, 0.0), 'chain': 'A'}
    b = {'tag': 'b', 'element': e2, 'position': (dist, 0.0, 0.0), 'chain': 'A'}
    if relation == 'same-res':
        resname = {'bonded': 'RB', 'non-bond': 'RN', 'one-unknown': 'RN', 'res-unknown': 'UNK', 'dup-name': 'RB'}[knowledge]
        a.update(resname=resname, resid=1, atomname='A1')
        b.update(resname=resname, resid=1, atomname={'one-unknown': 'ZZ', 'dup-name': 'A1'}.get(knowledge, 'A2'))
        return [[a, b]]
    a.update(resname='S1', resid=1, atomname='A1')
    if relation == 'other-res':
        b.update(resname='S2' if knowledge != 'res-unknown' else 'UNK', resid=2, atomname='A2')
        return [[a, b]]
    if relation == 'other-mol-same-ids':
        # the two atoms would be bonded by name (block RB) if they were one residue
        a.update(resname='RB')
        b.update(resname='RB', resid=1, atomname='A2')
        return [[a], [b]]
    b.update(resname='S2', resid=5, atomname='A2', chain='B')
    return [[a], [b]]


def pair_cases():
    for e1, e2 in itertools.product(ELEMENTS, repeat=2):
        for relation in RELATIONS:
            knows = KNOWLEDGE if relation == 'same-res' else (['bonded', 'res-unknown'] if relation == 'other-res' else ['bonded'])
            for knowledge in knows:
                yield e1, e2, relation, knowledge


# ----------------------------------------------------------------------------- through bin/martinize2

CLI_GAPS = [0.150, 0.165, 0.190, 0.230, 0.300, 0.125]        # nm; C-C threshold = fudge x 0.170: 0.136 (0.8) .. 0.255 (1.5)
CLI_FUDGES = [None, 0.8, 1.0, 1.2, 1.5]


def cli_case(item, acc):
    """The program itself: a row of carbon atoms, one per residue of a residue type the force field does not know (only the
    distance criterion applies), spacings on both sides of the thresholds of several fudge factors; the graph written right
    after bond guessing (-write-graph) is read back with mc/readers.py and compared with the stated criterion."""
    import tempfile
    from mc import cli, readers
    fudge, mode, layout = item
    case = {'layer': 'cli', 'fudge': fudge, 'mode': mode, 'layout': layout}
    gaps = CLI_GAPS if layout == 'forward' else list(reversed(CLI_GAPS))
    xs = [0.0]
    for gap in gaps:
        xs.append(xs[-1] + gap)
    lines = []
    for idx, x in enumerate(xs, start=1):
        lines.append('HETATM%5d  C1  LIG A%4d    %8.3f%8.3f%8.3f  1.00  0.00           C  ' % (idx, idx, x * 10, 0.0, 0.0))
    base = tempfile.mkdtemp(prefix='verif_c10cli_', dir='/dev/shm' if os.path.isdir('/dev/shm') else None)
    try:
        with open(os.path.join(base, 'in.pdb'), 'w') as handle:
            handle.write('\n'.join(lines) + '\nEND\n')
        argv = ['-f', 'in.pdb', '-x', 'cg.pdb', '-o', 'topol.top', '-bonds-from', mode, '-write-graph', 'graph.pdb', '-maxwarn', '100']
        if fudge is not None:
            argv += ['-bonds-fudge', str(fudge)]
        res = cli.run_inprocess(argv, base)
        path = os.path.join(base, 'graph.pdb')
        if not os.path.exists(path):
            acc.case(outcome=('cli-nograph', res['exit']))
            acc.violation('c10:cli-no-graph', 'martinize2 %r wrote no graph file (exit %r)\n%s' % (argv, res['exit'], res['stderr'][-400:]), case)
            return
        graph = readers.read_pdb(open(path).read())
    finally:
        shutil.rmtree(base, ignore_errors=True)
    eff = 1.2 if fudge is None else fudge
    want = set()
    if mode in ('distance', 'both'):
        for i, j in itertools.combinations(range(len(xs)), 2):
            if abs(xs[i] - xs[j]) <= eff * 0.170 + 1e-12:
                want.add(frozenset((i + 1, j + 1)))
    serial_to_res = {int(a['serial']): int(a['resid']) for a in graph['atoms']}
    got = set()
    for fields in graph['conect']:
        first = int(fields[0])
        for other in fields[1:]:
            if int(other) != first:
                got.add(frozenset((serial_to_res[first], serial_to_res[int(other)])))
    acc.case(nontrivial=fudge not in (None, 1.2), outcome=('cli', fudge, mode, len(got)))
    if got != want:
        acc.violation('c10:cli-bonds', 'martinize2 -bonds-from %s%s: bonds between residues %r; the criterion with fudge %s gives %r' % (
            mode, '' if fudge is None else ' -bonds-fudge %s' % fudge, sorted(map(sorted, got)), eff, sorted(map(sorted, want))), case)


def cli_items():
    for fudge in CLI_FUDGES:
        for mode in ('distance', 'both', 'name', 'none'):
            for layout in ('forward', 'reversed'):
                yield fudge, mode, layout


def work(task):
    common.bind_repo()
    kind, items = task
    acc = Acc()
    if kind == 'cli':
        for item in items:
            cli_case(item, acc)
        return acc
    if kind == 'pairs':
        for e1, e2, relation, knowledge in items:
            for factor, fudge, mode, pre in itertools.product((0.5, 1 - EPS, 1 + EPS, 1.5), (0.8, 1.0, 1.2),
                                                              ('name', 'distance', 'both', 'none'), (False, True)):
                if pre and relation.startswith('other-mol'):
                    continue
                case = {'layer': 'pairs', 'e1': e1, 'e2': e2, 'relation': relation, 'knowledge': knowledge,
                        'factor': factor, 'fudge': fudge, 'mode': mode, 'pre': pre}
                specs = pair_specs(e1, e2, factor, relation, knowledge, fudge)
                evaluate(specs, fudge, mode, [('a', 'b')] if pre else [], case, acc,
                         nontrivial=(mode != 'none'), sample=(acc.states % 7919 == 0))
    elif kind == 'sequence':
        for item in items:
            sequence_case(item, acc)
    elif kind == 'grid':
        for item in items:
            grid_case(item, acc)
    else:
        for item in items:
            system_case(item, acc)
    return acc


# ----------------------------------------------------------------------------- sequences of calls

def sequence_case(item, acc):
    """Several MakeBonds calls in ONE process with force fields that define the same block names differently:
    every call is judged on its own (no state may leak from one call to the next)."""
    variants, knowledges, factor = item[:3]
    fudges = item[3] if len(item) > 3 else (1.2,) * len(variants)
    for step, (variant, knowledge, fudge) in enumerate(zip(variants, knowledges, fudges)):
        case = {'layer': 'sequence', 'variants': list(variants), 'knowledges': list(knowledges), 'factor': factor, 'step': step,
                'fudges': list(fudges)}
        # the geometry is fixed by the FIRST fudge factor of the sequence: later calls see the same distance
        if len(item) > 3:
            # H-C pair next to a distant Se: the pair search radius follows the largest radius present (Se), so the
            # pair is examined by every call although the fudge factor differs
            specs = pair_specs('H', 'C', factor, 'same-res', knowledge, fudges[0])
            specs[0].append(dict(specs[0][1], tag='c', element='Se', atomname='A3', position=(5.0, 0.0, 0.0)))
        else:
            specs = pair_specs('C', 'C', factor, 'same-res', knowledge, fudges[0])
        before = len(acc.violations)
        evaluate(specs, fudge, 'both', [], case, acc, variant=variant)
        if len(acc.violations) > before:
            sig, desc, cs = acc.violations[-1]
            acc.violations[-1] = ('c10:call-sequence:' + sig.split(':', 1)[1],
                                  'call %d of the sequence %r: %s' % (step + 1, list(zip(variants, knowledges)), desc), cs)
            return


def sequence_items():
    for length in (2, 3):
        for variants in itertools.product(('normal', 'swapped'), repeat=length):
            for knowledges in itertools.product(('bonded', 'non-bond'), repeat=length):
                for factor in (1 - EPS, 1.5):
                    yield variants, knowledges, factor
    # the fudge factor changes from call to call (the atoms stay where they are)
    for length in (2, 3):
        for fudges in itertools.permutations((0.8, 1.0, 1.2, 1.4), length):
            for knowledge in ('res-unknown', 'non-bond'):
                for factor in (1 - EPS, 1 + EPS):
                    yield ('normal',) * length, (knowledge,) * length, factor, fudges


# ----------------------------------------------------------------------------- system level

def system_case(item, acc):
    """item: (layout, gaps, order, mode, split) - atoms on a line."""
    layout, gaps, order, mode, same_ids = item
    # layout: list of (element, residue index, atomname, resname)
    x = 0.0
    atoms = []
    for idx, (element, res, atomname, resname) in enumerate(layout):
        if idx:
            prev = layout[idx - 1][0]
            thr = threshold(prev, element, 1.2) or 0.15
            x += thr * (0.8 if gaps[idx - 1] else 1.6)
        atoms.append({'tag': 't%d' % idx, 'element': element, 'position': (x, 0.0, 0.0), 'chain': 'A',
                      'resname': resname, 'resid': 1 if same_ids else res + 1, 'atomname': atomname, '_res': res})
    # molecules: residue 0 (+1) in the first input molecule, the last residue in a second one when same_ids
    last_res = max(a['_res'] for a in atoms)
    if same_ids:
        mols = [[a for a in atoms if a['_res'] != last_res], [a for a in atoms if a['_res'] == last_res]]
        if len({a['_res'] for a in mols[0]}) > 1:
            for a in mols[0]:
                a['resid'] = a['_res'] + 1
            for a in mols[1]:
                a['resid'] = 1
    else:
        mols = [atoms]
    mols = [[a for a in (mol[i] for i in order if i < len(mol))] + [a for j, a in enumerate(mol) if j not in order] for mol in mols]
    mols = [[{k: v for k, v in a.items() if k != '_res'} for a in mol] for mol in mols if mol]
    case = {'layer': 'systems', 'layout': [list(l) for l in layout], 'gaps': list(gaps), 'order': list(order), 'mode': mode,
            'same_ids': same_ids}
    evaluate(mols, 1.2, mode, [], case, acc, nontrivial=True, sample=(acc.states % 1511 == 0))


LAYOUTS = [
    [('C', 0, 'A1', 'RB'), ('C', 0, 'A2', 'RB'), ('N', 1, 'A1', 'S1')],
    [('C', 0, 'A1', 'RN'), ('O', 0, 'A2', 'RN'), ('H', 1, 'A1', 'S1'), ('C', 1, 'A4', 'S1')],
    [('S', 0, 'A1', 'S1'), ('S', 1, 'A2', 'S2'), ('C', 2, 'A1', 'UNK')],
    [('N', 0, 'A1', 'RB'), ('H', 0, 'ZZ', 'RB'), ('H', 1, 'A2', 'S2'), ('O', 1, 'A4', 'S2')],
    # an unknown residue of two atoms that is not the first residue; an atom without a radius that is not the last atom
    [('C', 0, 'A1', 'S1'), ('C', 1, 'Z1', 'UNK'), ('O', 1, 'Z2', 'UNK'), ('N', 2, 'A2', 'S2')],
    [('X', 0, 'A1', 'RN'), ('C', 0, 'A2', 'RN'), ('O', 1, 'A1', 'S1'), ('N', 1, 'A4', 'S1')],
]


def grid_case(item, acc):
    """Four atoms on the corners of a rectangle (two residues, or two input molecules): sides and diagonals fall on
    either side of the criterion independently of each other."""
    elements, side_a, side_b, mode, fudge, split = item
    thr = threshold('C', 'C', fudge)
    xa, yb = thr * side_a, thr * side_b
    corners = [(0.0, 0.0), (xa, 0.0), (xa, yb), (0.0, yb)]
    names = [('A1', 'RB'), ('A2', 'RB'), ('A1', 'S1'), ('A4', 'S1')]
    atoms = []
    for idx, ((x, y), element, (atomname, resname)) in enumerate(zip(corners, elements, names)):
        atoms.append({'tag': 'g%d' % idx, 'element': element, 'position': (x, y, 0.0), 'chain': 'A',
                      'resname': resname, 'resid': 1 if (split == 'same-ids' or idx < 2) else 2, 'atomname': atomname})
    mols = [atoms[:2], atoms[2:]] if split != 'one' else [atoms]
    case = {'layer': 'grid', 'elements': list(elements), 'sides': [side_a, side_b], 'mode': mode, 'fudge': fudge, 'split': split}
    evaluate(mols, fudge, mode, [], case, acc, nontrivial=True, sample=(acc.states % 2003 == 0))


def grid_items(tier):
    sides = (0.6, 0.95, 1.05, 1.6)
    element_sets = [('C', 'C', 'C', 'C'), ('C', 'H', 'H', 'O'), ('N', 'O', 'S', 'H'), ('H', 'H', 'C', 'X'), ('S', 'Se', 'C', 'N')]
    if tier != 'quick':
        element_sets += [tuple(e) for e in itertools.product(('C', 'H', 'O'), repeat=4)]
    for elements in element_sets:
        for side_a, side_b in itertools.product(sides, repeat=2):
            for mode in ('both', 'distance', 'name'):
                for fudge in (0.8, 1.2):
                    for split in ('one', 'two', 'same-ids'):
                        yield elements, side_a, side_b, mode, fudge, split


# thorough only: five atoms in three residues (a complete three-atom residue between two others; an unknown residue in the middle)
LAYOUTS_5 = [
    [('C', 0, 'A1', 'S1'), ('N', 1, 'A1', 'RB'), ('C', 1, 'A2', 'RB'), ('O', 1, 'A3', 'RB'), ('H', 2, 'A2', 'S2')],
    [('C', 0, 'A1', 'RN'), ('H', 0, 'A3', 'RN'), ('S', 1, 'Z1', 'UNK'), ('C', 2, 'A2', 'S2'), ('O', 2, 'A4', 'S2')],
]


def system_items(tier='quick'):
    for layout in (LAYOUTS if tier == 'quick' else LAYOUTS + LAYOUTS_5):
        n = len(layout)
        for gaps in itertools.product((True, False), repeat=n - 1):
            for order in itertools.permutations(range(n)):
                for mode in ('both', 'distance', 'name'):
                    for same_ids in (False, True):
                        yield (layout, gaps, order, mode, same_ids)


def run(ctx):
    ctx.bound = {'elements': ELEMENTS, 'fudge': [0.8, 1.0, 1.2], 'system_atoms': '3-4 in 2-3 residues' if ctx.quick else '3-5 in 2-3 residues'}
    pcs = list(pair_cases())
    acc = Acc()
    for part in common.pmap(work, [('pairs', chunk) for chunk in common.chunked(pcs, max(1, len(pcs) // 64))]):
        acc += part
    ctx.layer('pairs', acc)
    items = list(system_items(ctx.tier))
    if ctx.quick:
        items = [it for it in items if it[2] == tuple(range(len(it[0]))) or it[2] == tuple(reversed(range(len(it[0])))) or len(it[0]) == 3]
    acc = Acc()
    for part in common.pmap(work, [('systems', chunk) for chunk in common.chunked(items, max(1, len(items) // 64))]):
        acc += part
    ctx.layer('systems', acc)
    gitems = list(grid_items(ctx.tier))
    acc = Acc()
    for part in common.pmap(work, [('grid', chunk) for chunk in common.chunked(gitems, max(1, len(gitems) // 64))]):
        acc += part
    ctx.layer('rectangles', acc)
    acc = Acc()
    # every sequence in its own fresh worker process, so that each starts from a clean interpreter state
    for part in common.pmap(work, [('sequence', [item]) for item in sequence_items()], fresh=True):
        acc += part
    ctx.layer('call-sequences', acc)
    acc = Acc()
    for part in common.pmap(work, [('cli', chunk) for chunk in common.chunked(list(cli_items()), 3)]):
        acc += part
    ctx.layer('martinize2-bond-options', acc)


def replay(case):
    common.bind_repo()
    acc = Acc()
    if case['layer'] == 'cli':
        cli_case((case['fudge'], case['mode'], case['layout']), acc)
    elif case['layer'] == 'grid':
        grid_case((tuple(case['elements']), case['sides'][0], case['sides'][1], case['mode'], case['fudge'], case['split']), acc)
    elif case['layer'] == 'sequence':
        item = (tuple(case['variants']), tuple(case['knowledges']), case['factor'])
        if len(set(case.get('fudges') or [1.2])) > 1:
            item += (tuple(case['fudges']),)
        sequence_case(item, acc)
    elif case['layer'] == 'pairs':
        specs = pair_specs(case['e1'], case['e2'], case['factor'], case['relation'], case['knowledge'], case['fudge'])
        evaluate(specs, case['fudge'], case['mode'], [('a', 'b')] if case['pre'] else [], case, acc)
    else:
        system_case(([tuple(l) for l in case['layout']], tuple(case['gaps']), tuple(case['order']), case['mode'], case['same_ids']), acc)
    return [(s, d) for s, d, _ in acc.violations]
