"""
C15 through bin/martinize2: the elastic-network options as the program wires them (-ef -el -eu -ea -ep -em -ermd -eb -eunit,
with -merge and two chains).  The bonds of function type 6 in the written ITPs are compared with the statement's criteria
evaluated on the particle coordinates the same run wrote (cg.pdb, 3 decimals in Angstrom): pairs whose distance or force
constant lies within the rounding of a threshold are left undecided.
"""
import itertools
import math
import os
import shutil
import tempfile

from mc import common, cli, readers
from mc.common import Acc

OPTIONS = {
    'plain': [],
    'ef500': ['-ef', '500'],
    'window': ['-el', '0.5', '-eu', '0.8'],
    'decay': ['-ea', '0.8', '-ep', '2', '-em', '100', '-el', '0.4'],
    'ermd3': ['-ermd', '3'],
    'ermd1': ['-ermd', '1'],
    'ermd0-eu': ['-ermd', '0', '-eu', '0.6'],
    'beads': ['-eb', 'BB,SC1', '-eu', '0.7'],
}
TWO_CHAIN = {
    'unit-molecule': [],
    'unit-chain-merged': ['-eunit', 'chain', '-merge', 'A,B'],
    'unit-molecule-merged': ['-merge', 'A,B'],
    'unit-all': ['-eunit', 'all'],
    'unit-regions': ['-eunit', '3:5,6:8', '-merge', 'A,B'],
    'unit-regions-overlap': ['-eunit', '3:6,5:21', '-merge', 'A,B', '-eu', '1.2'],
}


def parse_options(opts):
    values = {'ef': 700.0, 'el': 0.0, 'eu': 0.9, 'ea': 0.0, 'ep': 1.0, 'em': 0.0, 'ermd': 2, 'eb': None, 'eunit': 'molecule', 'merge': None}
    it = iter(opts)
    for flag in it:
        value = next(it)
        key = flag.lstrip('-')
        if key in ('ef', 'el', 'eu', 'ea', 'ep', 'em'):
            values[key] = float(value)
        elif key == 'ermd':
            values[key] = int(value)
        elif key == 'eb':
            values[key] = value.split(',')
        else:
            values[key] = value
    return values


def rubber_lines(text):
    """The bonds the ITP lists under the group comment '; Rubber band' (the writer groups interactions by their 'group' metadata)."""
    out = []
    section, in_group = None, False
    for raw in text.splitlines():
        line = raw.strip()
        if line.startswith('['):
            section, in_group = line.strip('[] ').lower(), False
            continue
        if line.startswith(';'):
            in_group = section == 'bonds' and line.lstrip('; ').strip() == 'Rubber band'
            continue
        if not line or line.startswith('#'):
            if not line:
                in_group = False
            continue
        if in_group:
            tokens = line.split(';')[0].split()
            out.append((tokens[:2], tokens[2:]))
    return out


def cli_case(item, acc):
    from props import c11
    name, label, opts = item
    case = {'layer': 'cli', 'input': name, 'label': label, 'options': list(opts)}
    atoms = [dict(a) for a in c11.load_atoms(name.split('~')[0]) if a['element'] != 'H']
    if name.endswith('~icode'):
        # residues numbered 1 2 3 3A 4 ...: the fourth residue shares its number (and name) with the third, the insertion code
        # alone tells them apart; they are still two residues of the chain
        order = []
        for atom in atoms:
            if atom['res'] not in order:
                order.append(atom['res'])
        for atom in atoms:
            k = order.index(atom['res'])
            resid, icode = (k + 1, ' ') if k < 3 else ((3, 'A') if k == 3 else (k, ' '))
            atom['line'] = atom['line'][:22] + '%4d%s' % (resid, icode) + atom['line'][27:]
            atom['res'] = (atom['res'][0], resid, icode)
    base = tempfile.mkdtemp(prefix='verif_c15cli_', dir='/dev/shm' if os.path.isdir('/dev/shm') else None)
    try:
        with open(os.path.join(base, 'in.pdb'), 'w') as handle:
            handle.write(c11.render_pdb(atoms))
        res = cli.run_inprocess(['-f', 'in.pdb', '-x', 'cg.pdb', '-o', 'topol.top', '-maxwarn', '100', '-elastic', '-resid', 'input'] + list(opts), base)
        if res['exit'] != 0:
            acc.case(outcome=('cli-exit', res['exit']))
            acc.violation('c15:cli-run-failed', 'martinize2 -elastic %r on %s exits %r\n%s' % (opts, name, res['exit'], res['stderr'][-400:]), case)
            return
        top = readers.read_top(open(os.path.join(base, 'topol.top')).read())
        pdb = readers.read_pdb(open(os.path.join(base, 'cg.pdb')).read())
        itps = {n: readers.read_itp(open(os.path.join(base, n + '.itp')).read()) for n, _ in top['molecules']}
        for n in itps:
            itps[n]['rubber'] = rubber_lines(open(os.path.join(base, n + '.itp')).read())
    finally:
        shutil.rmtree(base, ignore_errors=True)
    v = parse_options(opts)
    names = [n for n, count in top['molecules'] for _ in range(count)]
    bounds = [0] + pdb['ters']
    problems = []
    undecided = decided = 0
    for midx, mname in enumerate(names):
        records = pdb['atoms'][bounds[midx]:bounds[midx + 1]]
        itp = itps[mname]
        if len(records) != len(itp['atoms']):
            problems.append(('c15:cli-files-disagree', 'molecule %d: %d records, %d ITP atoms' % (midx, len(records), len(itp['atoms']))))
            break
        beads = []
        for rec, atom in zip(records, itp['atoms']):
            beads.append({'name': atom['atomname'], 'resid': int(atom['resid']), 'chain': rec['chain'].strip(),
                          'pos': (float(rec['x']) / 10, float(rec['y']) / 10, float(rec['z']) / 10)})
        # residue graph of this molecule: residues (chain, resid) in order; consecutive residues of one chain are bonded
        residues = []
        last = None
        for bead in beads:
            # a new residue starts at every backbone particle (residues that share a number through insertion codes stay apart)
            if bead['name'] == 'BB' or last is None:
                last = (bead['chain'], bead['resid'], len(residues))
                residues.append(last)
            bead['res'] = last
        graph_dist = {}
        for a, b in itertools.combinations(range(len(residues)), 2):
            graph_dist[(a, b)] = (b - a) if residues[a][0] == residues[b][0] else None      # other chain: not connected
        selected_names = v['eb'] or ['BB']
        selected = [i for i, bead in enumerate(beads) if bead['name'] in selected_names]
        rubber = {}
        for atoms_, params in itp['rubber']:
            key = frozenset(int(x) - 1 for x in atoms_)
            if key in rubber:
                problems.append(('c15:cli-duplicate-bond', 'molecule %d: two elastic bonds on %r' % (midx, sorted(key))))
            rubber[key] = params
        regions = None
        if ':' in str(v['eunit']):
            regions = [tuple(int(x) for x in part.split(':')) for part in v['eunit'].split(',')]
        for i, j in itertools.combinations(selected, 2):
            bi, bj = beads[i], beads[j]
            ri, rj = residues.index(bi['res']), residues.index(bj['res'])
            d = math.dist(bi['pos'], bj['pos'])
            if regions is not None:
                same_domain = any(lo <= bi['resid'] <= hi and lo <= bj['resid'] <= hi for lo, hi in regions)
            elif v['eunit'] == 'chain':
                same_domain = bi['chain'] == bj['chain']
            else:
                same_domain = True
            gd = 0 if ri == rj else graph_dist[(min(ri, rj), max(ri, rj))]
            far_enough = gd is None or gd > v['ermd']
            k = min(v['ef'], v['ef'] * math.exp(-v['ea'] * (d - v['el']) ** v['ep'])) if d >= v['el'] or v['ea'] == 0 or float(v['ep']).is_integer() else v['ef']
            near = abs(d - v['eu']) < 3e-4 or abs(k - v['em']) < 0.5
            want = same_domain and far_enough and d <= v['eu'] and k > v['em']
            have = frozenset((i, j)) in rubber
            if near:
                undecided += 1
                continue
            decided += 1
            if want != have:
                why = ('other-domain' if not same_domain else 'too-close-in-graph' if not far_enough else 'beyond-cutoff' if d > v['eu'] else 'too-weak')
                sig = 'c15:cli-missing-bond' if want else 'c15:cli-unjustified-bond(%s)' % why
                problems.append((sig, 'martinize2 -elastic %s: %s%d-%s%d (%s %s) at %.4f nm, residue-graph distance %r, force constant %.1f: elastic bond %s, '
                                 'the criteria say %s' % (' '.join(opts), bi['chain'], bi['resid'], bj['chain'], bj['resid'], bi['name'], bj['name'], d, gd, k, have, want)))
                break
            if have:
                got_len, got_k = float(rubber[frozenset((i, j))][1]), float(rubber[frozenset((i, j))][2])
                if not abs(got_len - d) <= 2e-4 or not abs(got_k - k) <= max(0.6, 2e-3 * k):
                    problems.append(('c15:cli-wrong-parameters', 'martinize2 -elastic %s: bond %s%d-%s%d written with length %s and force constant %s; the '
                                     'written coordinates give %.4f and %.2f' % (' '.join(opts), bi['chain'], bi['resid'], bj['chain'], bj['resid'],
                                                                                rubber[frozenset((i, j))][1], rubber[frozenset((i, j))][2], d, k)))
                    break
        stray = [sorted(k) for k in rubber if not all(x in selected for x in k)]
        if stray and not problems:
            problems.append(('c15:cli-unjustified-bond(not-selected)', 'elastic bonds on particles outside the selection %r: %r' % (selected_names, stray[:3])))
        if problems:
            break
    acc.case(nontrivial=decided > 0, outcome=('cli', name, label, decided > 0, len(problems)))
    for sig, desc in problems[:1]:
        acc.violation(sig, desc, case)


def items(tier):
    for label, opts in OPTIONS.items():
        yield 'bta3-12', label, opts
    for label, opts in TWO_CHAIN.items():
        yield 'bta-two-chains-6', label, opts
    for label, opts in (('icode-ermd1', ['-ermd', '1', '-eu', '1.5']), ('icode-default', ['-eu', '1.5']), ('icode-ermd0', ['-ermd', '0', '-eu', '1.5'])):
        yield 'ala5~icode', label, opts
    if tier != 'quick':
        for (la, oa), (lb, ob) in itertools.combinations(list(OPTIONS.items())[1:], 2):
            if not set(oa[::2]) & set(ob[::2]):
                yield 'bta3-12', la + '+' + lb, oa + ob
        for label, opts in OPTIONS.items():
            yield 'bta-two-chains-6', 'merged+' + label, ['-merge', 'A,B'] + opts


def work(task):
    common.bind_repo()
    acc = Acc()
    for item in task:
        cli_case(item, acc)
    return acc


def run_layer(ctx):
    todo = list(items(ctx.tier))
    acc = Acc()
    for part in common.pmap(work, [[item] for item in todo]):
        acc += part
    ctx.layer('martinize2-elastic-options', acc)


def replay(case):
    common.bind_repo()
    acc = Acc()
    cli_case((case['input'], case['label'], list(case['options'])), acc)
    return [(s, d) for s, d, _ in acc.violations]
