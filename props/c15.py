"""
C15 — elastic-network bonds are exactly the pairs meeting every stated criterion.

Enumerated: molecules of 3-5 residues (BB, optional SC1 by mask) on a line / L-shape; residue graph
linear, with a gap (two chains), with a cross-link; selections {BB}, {SC1}, {BB,SC1} (so residues
without any selected atom occur); node order contiguous / all-BB-first / reversed (thorough: all
permutations for <= 5 beads); domain in {molecule, chain, disjoint regions, overlapping regions};
lower in {0, 0.5}, upper in {0.9, 0.5}, decay (a,p) in {(0,1),(0.8,1),(0.8,2)}, minimum force in
{0, 300}, separation in {0,1,2,3}; a NaN coordinate on a selected bead; the 24 axis rotations.
Oracle: the five-fold conjunction of the statement over all pairs; length = distance rounded to 5
decimals; constant = min(base, base*exp(-a(d-lower)^p)); exactly one bond per qualifying pair;
NaN => no bond, a warning, no exception.
"""
import itertools
import math

from mc import common
from mc.common import Acc
from props.c09 import ROTS, move

RULE = ("full product of shapes x residue graphs x selections x node orders x domains x parameter menus; distinct = distinct "
        "tuples; non-trivial = at least one pair passes some criteria and fails another (mixed verdicts inside one molecule)")
ASSUMPTIONS = ["spacings are chosen so that no distance or force constant lies on a threshold",
               "selected atoms with position None are an error by the function's documentation and are not generated",
               "graph separation is counted on the residue graph built from chain/resid/resname"]

BASE = 500.0
SPACING = 0.31


def build(nres, sc_mask, graph_kind, geometry, order_kind, rot=None, nan_on=None):
    """Returns (molecule, info) ; info[key] = dict(name, res, chain, resid, pos)."""
    import numpy as np
    import vermouth
    atoms = []
    gap_after = nres // 2 - 1 if graph_kind in ('gap', 'gap-nochain') else None
    for res in range(nres):
        chain = 'A'
        if gap_after is not None and res > gap_after:
            chain = 'B' if graph_kind == 'gap' else None        # None: these particles have no chain attribute at all
        if geometry == 'line' or res < 2:
            bb = (SPACING * res, 0.0, 0.0)
        else:
            bb = (SPACING, SPACING * (res - 1), 0.0)
        atoms.append({'name': 'BB', 'res': res, 'chain': chain, 'resid': res + 1, 'pos': bb})
        if sc_mask >> res & 1:
            atoms.append({'name': 'SC1', 'res': res, 'chain': chain, 'resid': res + 1, 'pos': (bb[0], bb[1], 0.2)})
    if order_kind == 'contiguous':
        ordered = atoms
    elif order_kind == 'bb-first':
        ordered = [a for a in atoms if a['name'] == 'BB'] + [a for a in atoms if a['name'] != 'BB']
    elif order_kind == 'reversed':
        ordered = atoms[::-1]
    else:
        ordered = [atoms[i] for i in order_kind]
    keys = [3 * i + 2 for i in range(len(ordered))]
    mol = vermouth.molecule.Molecule()
    mol.meta['moltype'] = 'verif_mol'
    info = {}
    for key, atom in zip(keys, ordered):
        pos = atom['pos']
        if rot is not None:
            pos = move(pos, rot, (0.5, -0.25, 1.0))
        pos = np.array(pos, dtype=float)
        if nan_on is not None and atom['name'] == nan_on[0] and atom['res'] == nan_on[1]:
            pos = np.array([np.nan] * 3)
        mol.add_node(key, atomname=atom['name'], resid=atom['resid'], resname='RES', chain=atom['chain'], position=pos)
        if atom['chain'] is None:
            del mol.nodes[key]['chain']
        info[key] = dict(atom, pos=pos)
    by = {(a['res'], a['name']): k for k, a in info.items()}
    for res in range(nres):
        if (res, 'SC1') in by:
            mol.add_edge(by[(res, 'BB')], by[(res, 'SC1')])
        if res + 1 < nres and not (gap_after is not None and res == gap_after):
            mol.add_edge(by[(res, 'BB')], by[(res + 1, 'BB')])
    if graph_kind == 'crosslink' and nres >= 3:
        mol.add_edge(by[(0, 'BB')], by[(nres - 1, 'BB')])
    # a pre-existing ordinary bond must survive untouched
    mol.add_interaction('bonds', (by[(0, 'BB')], by[(1, 'BB')]), ['1', '0.35', '1250'])
    return mol, info


def residue_distances(mol, info):
    """Brute-force BFS on the residue graph (residue = (chain, resid))."""
    res_of = {k: (a['chain'], a['resid']) for k, a in info.items()}
    adj = {}
    for res in set(res_of.values()):
        adj[res] = set()
    for a, b in mol.edges:
        if res_of[a] != res_of[b]:
            adj[res_of[a]].add(res_of[b])
            adj[res_of[b]].add(res_of[a])
    dist = {}
    for start in adj:
        seen = {start: 0}
        frontier = [start]
        while frontier:
            nxt = []
            for node in frontier:
                for nb in adj[node]:
                    if nb not in seen:
                        seen[nb] = seen[node] + 1
                        nxt.append(nb)
            frontier = nxt
        dist[start] = seen
    return res_of, dist


DOMAINS = ['molecule', 'chain', 'regions', 'overlap']


def domain_fn(kind):
    from vermouth.processors import apply_rubber_band as arb
    if kind == 'molecule':
        return arb.always_true
    if kind == 'chain':
        return arb.same_chain
    if kind == 'regions':
        return arb.make_same_region_criterion([(1, 2), (3, 5)])
    return arb.make_same_region_criterion([(1, 3), (2, 5)])


def same_domain(kind, a, b):
    if kind == 'molecule':
        return True
    if kind == 'chain':
        return a['chain'] == b['chain']
    regions = [(1, 2), (3, 5)] if kind == 'regions' else [(1, 3), (2, 5)]
    return any(lo <= a['resid'] <= hi and lo <= b['resid'] <= hi for lo, hi in regions)


def check(shape, params, acc, sample=False, shared=None, ffvars=None):
    import functools
    import numpy as np
    from vermouth.processors.apply_rubber_band import ApplyRubberBand
    from vermouth import selectors
    nres, sc_mask, graph_kind, geometry, order_kind, selection, rot_idx, nan_on = shape
    domain, lower, upper, (decay_a, decay_p), minforce, sep = params
    case = {'shape': [nres, sc_mask, graph_kind, geometry, order_kind if isinstance(order_kind, str) else list(order_kind),
                      list(selection), rot_idx, list(nan_on) if nan_on else None],
            'params': [domain, lower, upper, [decay_a, decay_p], minforce, sep]}
    bond_type = 6
    if ffvars is not None:
        # the processor is built without bond type / minimum separation: both come from the force field of
        # the molecule at hand (documented priority: argument, then force-field variable, then default)
        case['ffvars'] = dict(ffvars)
        bond_type = ffvars.get('elastic_network_bond_type', 6)
        sep = ffvars.get('elastic_network_res_min_dist', 2)
    rot = ROTS[rot_idx] if rot_idx is not None else None
    mol, info = build(nres, sc_mask, graph_kind, geometry, order_kind, rot=rot, nan_on=nan_on)
    selector = functools.partial(selectors.proto_select_attribute_in, attribute='atomname', values=list(selection))
    if shared is not None and 'processor' in shared:
        processor = shared['processor']       # ONE processor instance over several molecules
    else:
        processor = ApplyRubberBand(lower_bound=lower, upper_bound=upper, decay_factor=decay_a, decay_power=decay_p,
                                    base_constant=BASE, minimum_force=minforce,
                                    res_min_dist=sep if ffvars is None else None, bond_type=6 if ffvars is None else None,
                                    selector=selector, domain_criterion=domain_fn(domain))
        if shared is not None:
            shared['processor'] = processor
    if ffvars is not None:
        import types
        mol._force_field = types.SimpleNamespace(variables=dict(ffvars), name='toy')   # pylint: disable=protected-access
    try:
        with common.LogCapture() as log:
            processor.run_molecule(mol)
    except Exception as err:   # pylint: disable=broad-except
        acc.case(outcome='exc')
        acc.violation('c15:exception' + (':nan-coordinates' if nan_on else ''),
                      'ApplyRubberBand raised %r%s' % (err, ' on a molecule with a NaN coordinate on a selected bead' if nan_on else ''), case)
        return
    rubber = [i for i in mol.interactions.get('bonds', []) if i.meta.get('group') == 'Rubber band']
    other = [i for i in mol.interactions.get('bonds', []) if i.meta.get('group') != 'Rubber band']
    problems = []
    if len(other) != 1 or list(other[0].parameters) != ['1', '0.35', '1250']:
        problems.append(('c15:other-bonds-touched', 'pre-existing bond changed: %r' % (other,)))
    selected = [k for k, a in info.items() if a['name'] in selection]
    if nan_on and any(info[k]['name'] == nan_on[0] and info[k]['res'] == nan_on[1] for k in selected):
        warned = bool(log.messages())
        acc.case(nontrivial=True, outcome=('nan', len(rubber), warned))
        if rubber:
            problems.append(('c15:nan-network', 'molecule with NaN coordinates on a selected bead got %d elastic bonds' % len(rubber)))
        elif not warned:
            problems.append(('c15:nan-no-warning', 'no warning for a molecule whose selected atoms have NaN coordinates'))
        for sig, desc in problems[:1]:
            acc.violation(sig, desc, case)
        return
    res_of, rdist = residue_distances(mol, info)
    expected = {}
    verdicts = set()
    for a, b in itertools.combinations(selected, 2):
        ia, ib = info[a], info[b]
        d = float(np.linalg.norm(ia['pos'] - ib['pos']))
        gd = rdist[res_of[a]].get(res_of[b])
        far_enough = gd is None or gd > sep
        k = min(BASE, BASE * math.exp(-decay_a * (d - lower) ** decay_p))
        ok = same_domain(domain, ia, ib) and far_enough and d <= upper and k > minforce
        verdicts.add((same_domain(domain, ia, ib), far_enough, d <= upper, k > minforce))
        if ok:
            expected[frozenset((a, b))] = (round(d, 5), k)
    got = {}
    for inter in rubber:
        key = frozenset(inter.atoms)
        if len(inter.atoms) != 2 or len(key) != 2:
            problems.append(('c15:malformed-bond', 'elastic bond on atoms %r' % (inter.atoms,)))
            break
        if key in got:
            problems.append(('c15:duplicate-bond', 'two elastic bonds on pair %r' % (sorted(key),)))
            break
        got[key] = inter.parameters
    if not problems:
        missing = [sorted(k) for k in expected if k not in got]
        extra = [sorted(k) for k in got if k not in expected]
        if extra:
            a, b = extra[0]
            ia, ib = info[a], info[b]
            d = float(np.linalg.norm(ia['pos'] - ib['pos']))
            gd = rdist[res_of[a]].get(res_of[b])
            why = []
            if a not in selected or b not in selected:
                why.append('not-selected')
            if not same_domain(domain, ia, ib):
                why.append('other-domain')
            if not (gd is None or gd > sep):
                why.append('too-close-in-graph')
            if d > upper:
                why.append('beyond-cutoff')
            if not why:
                why.append('too-weak')
            problems.append(('c15:unjustified-bond(%s)' % why[0], 'elastic bond between %s%d and %s%d (distance %.5f, residue-graph distance %r, '
                             'separation %d, domain %s) although: %s' % (ia['name'], ia['resid'], ib['name'], ib['resid'], d, gd, sep, domain, why)))
        elif missing:
            a, b = missing[0]
            ia, ib = info[a], info[b]
            problems.append(('c15:missing-bond', 'no elastic bond between %s%d and %s%d although every criterion holds (expected %r)' % (
                ia['name'], ia['resid'], ib['name'], ib['resid'], expected[frozenset((a, b))])))
        else:
            for key, (length, const) in expected.items():
                params_got = got[key]
                if (len(params_got) != 3 or params_got[0] != bond_type or not abs(float(params_got[1]) - length) <= 1e-9
                        or not abs(float(params_got[2]) - const) <= 1e-9 * max(1.0, const)):
                    problems.append(('c15:wrong-parameters', 'bond %r has parameters %r, expected [%r, %r, %r]' % (
                        sorted(key), list(params_got), bond_type, length, const)))
                    break
    acc.case(nontrivial=len(verdicts) > 1 and bool(expected), outcome=(len(expected), len(got)),
             sample=dict(case, bonds=len(got)) if sample else None)
    for sig, desc in problems[:1]:
        acc.violation(sig, desc, case)


def shapes(tier):
    out = []
    res_counts = (3, 4) if tier == 'quick' else (3, 4, 5)
    for nres in res_counts:
        masks = sorted({0, (1 << nres) - 1, 0b0101 & ((1 << nres) - 1), 1, 1 << (nres - 1)})
        for sc_mask in masks:
            for graph_kind in ('linear', 'gap', 'crosslink', 'gap-nochain'):
                for geometry in ('line', 'L'):
                    for selection in (('BB',), ('SC1',), ('BB', 'SC1')):
                        if selection == ('SC1',) and sc_mask == 0:
                            continue
                        for order_kind in ('contiguous', 'bb-first', 'reversed'):
                            out.append((nres, sc_mask, graph_kind, geometry, order_kind, selection, None, None))
    return out


PARAMS = list(itertools.product(DOMAINS, (0.0, 0.5), (0.9, 0.5), ((0, 1), (0.8, 1), (0.8, 2)), (0.0, 300.0), (0, 1, 2, 3)))


def reuse_case(item, acc):
    """One ApplyRubberBand instance applied to several different molecules in turn; every molecule judged on its own."""
    shapes_seq, params = item[:2]
    ffseq = item[2] if len(item) > 2 and item[2] else [None] * len(shapes_seq)
    shared = {}
    before = len(acc.violations)
    for shape, ffvars in zip(shapes_seq, ffseq):
        check(shape, params, acc, shared=shared, ffvars=dict(ffvars) if ffvars is not None else None)
    for idx in range(before, len(acc.violations)):
        sig, desc, case = acc.violations[idx]
        acc.violations[idx] = (sig + '(instance-reuse)', 'one processor instance over several molecules: ' + desc,
                               {'reuse': common.jsonable(item)})


def work(task):
    common.bind_repo()
    kind, items = task
    acc = Acc()
    if kind == 'reuse':
        for item in items:
            reuse_case(item, acc)
        return acc
    for n, shape in enumerate(items):
        if kind == 'full':
            for params in PARAMS:
                check(shape, params, acc, sample=(acc.states % 20011 == 0))
        else:
            check(shape[0], shape[1], acc, sample=(acc.states % 211 == 0))
    return acc


def run(ctx):
    ctx.bound = {'residues': '3-4' if ctx.quick else '3-5', 'parameter_sets': len(PARAMS)}
    shp = shapes(ctx.tier)
    acc = Acc()
    for part in common.pmap(work, [('full', chunk) for chunk in common.chunked(shp, max(1, len(shp) // 96))]):
        acc += part
    ctx.layer('criteria-product', acc)
    # rotations, node-order permutations and NaN coordinates on a reduced parameter menu
    extra = []
    reduced = [p for p in PARAMS if p[1] == 0.5 and p[3] == (0.8, 2) and p[4] == 300.0 and p[5] in (0, 2)]
    base_shapes = [(4, 0b0101, g, 'L', 'contiguous', ('BB', 'SC1'), None, None) for g in ('linear', 'gap', 'crosslink')]
    for shape in base_shapes:
        for rot_idx in range(len(ROTS)):
            for params in reduced:
                extra.append(((shape[0], shape[1], shape[2], shape[3], shape[4], shape[5], rot_idx, None), params))
        natoms = 6
        perms = list(itertools.permutations(range(natoms)))
        if ctx.quick:
            perms = perms[::24]
        for perm in perms:
            extra.append(((shape[0], shape[1], shape[2], shape[3], perm, shape[5], None, None), reduced[0]))
    for shape in shp:
        if shape[4] == 'contiguous':
            for nan_on in (('BB', 1), ('SC1', 0)):
                extra.append(((shape[0], shape[1], shape[2], shape[3], shape[4], shape[5], None, nan_on), PARAMS[0]))
    acc = Acc()
    for part in common.pmap(work, [('extra', chunk) for chunk in common.chunked(extra, max(1, len(extra) // 64))]):
        acc += part
    ctx.layer('motions-orders-nan', acc)
    pool = [(3, 0b111, 'linear', 'line', 'contiguous', ('BB', 'SC1'), None, None), (4, 0b0101, 'gap', 'L', 'bb-first', ('BB', 'SC1'), None, None),
            (4, 0, 'crosslink', 'line', 'reversed', ('BB', 'SC1'), None, None), (3, 0b001, 'gap', 'L', 'contiguous', ('BB', 'SC1'), None, None)]
    reuse_params = [p for p in PARAMS if p[1] == 0.0 and p[2] == 0.9 and p[3] == (0.8, 1) and p[4] == 0.0 and p[5] in (0, 1)]
    items = [(seq, params) for n in (2, 3) for seq in itertools.permutations(pool, n) for params in reuse_params]
    # the same, with bond type and minimum separation taken from each molecule's own force field
    ffchoices = [(), (('elastic_network_res_min_dist', 1),), (('elastic_network_bond_type', 1), ('elastic_network_res_min_dist', 3)),
                 (('elastic_network_bond_type', 8),)]
    items += [(seq, params, ffs) for seq in itertools.permutations(pool, 2) for params in reuse_params[:2]
              for ffs in itertools.product(ffchoices, repeat=2)]
    acc = Acc()
    for part in common.pmap(work, [('reuse', chunk) for chunk in common.chunked(items, max(1, len(items) // 32))]):
        acc += part
    ctx.layer('instance-reuse', acc)
    from props import c15_cli
    c15_cli.run_layer(ctx)


def replay(case):
    common.bind_repo()
    acc = Acc()
    if case.get('layer') == 'cli':
        from props import c15_cli
        return c15_cli.replay(case)
    if 'reuse' in case:
        def shp(x):
            return (x[0], x[1], x[2], x[3], x[4] if isinstance(x[4], str) else tuple(x[4]), tuple(x[5]), x[6], tuple(x[7]) if x[7] else None)
        seq, p = case['reuse'][:2]
        ffs = case['reuse'][2] if len(case['reuse']) > 2 else None
        ffs = [tuple(tuple(kv) for kv in f) for f in ffs] if ffs else None
        reuse_case((tuple(shp(x) for x in seq), (p[0], p[1], p[2], tuple(p[3]), p[4], p[5]), ffs), acc)
        return [(s_, d) for s_, d, _ in acc.violations]
    s = case['shape']
    shape = (s[0], s[1], s[2], s[3], s[4] if isinstance(s[4], str) else tuple(s[4]), tuple(s[5]), s[6], tuple(s[7]) if s[7] else None)
    p = case['params']
    check(shape, (p[0], p[1], p[2], tuple(p[3]), p[4], p[5]), acc)
    return [(s_, d) for s_, d, _ in acc.violations]
