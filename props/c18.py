"""
C18 — Go-model sites and contacts mirror the backbone and the contact map.

Enumerated: systems of 3-4 (thorough 5) residues in 1-2 chains/molecules (BB +- SC1, lattice positions),
with or without a disulfide-like extra residue edge, consecutive or gapped input residue numbers;
EVERY subset of directed residue pairs as the contact list (64 lists for 3 residues, 4096 for 4), in
both list orders, optionally with contacts naming an absent residue / chain; cut-off windows that
include, exclude and straddle the distances; separation 0..3; default and custom backbone / site names;
molecule name 'molecule' and (thorough) one that is a prefix of a bead type.
Oracle: one site per backbone particle, key above all pre-existing keys, co-located, virtual_sitesn
[site, bb] function 1, identity copied, mass 0, charge 0, type unique per residue and named after molecule and
residue.  A pair potential for {i,j} iff (i,j) and (j,i) listed and residue-graph distance > separation
and low < d < high; sigma = d / 2^(1/6), epsilon as requested; exclusion between the two backbone
particles; nothing else.
"""
import itertools

from mc import common
from mc.common import Acc

RULE = ("every subset of directed residue pairs as contact list x shapes x windows x separations; distinct = distinct tuples; "
        "non-trivial = the list contains at least one symmetric pair and at least one pair that some filter rejects")
ASSUMPTIONS = ["(chain, input residue number) identifies a residue uniquely in the generated systems",
               "contact lists contain no repeated entries (the property's quantifier)"]


def build_system(shape):
    """shape = (chains, sc, xlink, gapped, bb_name). chains: tuple of residue counts per chain/molecule."""
    import numpy as np
    import vermouth
    from vermouth.forcefield import ForceField
    chains, sc, xlink, gapped, bb_name = shape
    ff = ForceField(name='goff')
    system = vermouth.System(force_field=ff)
    residues = []     # global list of dicts
    gidx = 0
    for cidx, nres in enumerate(chains):
        mol = vermouth.molecule.Molecule(force_field=ff)
        chain = 'AB'[cidx]
        key = 0
        prev_bb = None
        for r in range(nres):
            if gapped == 'same':
                old_resid = r + 1            # every chain numbers its residues from 1 (homodimer style)
            else:
                old_resid = (r + 1) * (3 if gapped else 1) + (10 if cidx else 0)
            pos = np.array([0.3 * gidx, 0.1 * (gidx % 2), 0.05 * cidx])
            bb = key
            mol.add_node(bb, atomname=bb_name, resname='ALA', resid=r + 1, _old_resid=old_resid, chain=chain,
                         position=pos, charge_group=key + 1, atype='P2', cgsecstruct='C')
            key += 1
            sc_key = None
            if sc:
                sc_key = key
                mol.add_node(sc_key, atomname='SC1', resname='ALA', resid=r + 1, _old_resid=old_resid, chain=chain,
                             position=pos + np.array([0.0, 0.0, 0.2]), charge_group=key + 1, atype='SC3')
                mol.add_edge(bb, sc_key)
                key += 1
            if prev_bb is not None:
                mol.add_edge(prev_bb, bb)
            prev_bb = bb
            residues.append({'chain': chain, 'old_resid': old_resid, 'mol': cidx, 'bb': bb, 'sc': sc_key, 'pos': pos})
            gidx += 1
        if xlink and nres >= 3:
            first = [res for res in residues if res['mol'] == cidx][0]
            last = [res for res in residues if res['mol'] == cidx][-1]
            mol.add_edge(first['sc'] if sc else first['bb'], last['sc'] if sc else last['bb'])
        system.add_molecule(mol)
    return system, residues


def residue_graph_distances(chains, xlink):
    """BFS distances between global residue indices."""
    adj = {}
    offset = 0
    total = sum(chains)
    for i in range(total):
        adj[i] = set()
    for nres in chains:
        for r in range(nres - 1):
            adj[offset + r].add(offset + r + 1)
            adj[offset + r + 1].add(offset + r)
        if xlink and nres >= 3:
            adj[offset].add(offset + nres - 1)
            adj[offset + nres - 1].add(offset)
        offset += nres
    dist = {}
    for start in adj:
        seen = {start: 0}
        frontier = [start]
        while frontier:
            nxt = []
            for node in frontier:
                for nb in adj[node]:
                    if nb not in seen:
                        seen[nb] = seen[node] + 1
                        nxt.append(nb)
            frontier = nxt
        dist[start] = seen
    return dist


def check(shape, contact_bits, reverse, absent, window, sep, names, acc, sample=False):
    import numpy as np
    from vermouth.rcsu.go_pipeline import GoPipeline
    chains, sc, xlink, gapped, bb_name = shape
    moltype, site_name = names
    case = {'shape': [list(chains), sc, xlink, gapped, bb_name], 'contacts': contact_bits, 'reverse': reverse, 'absent': absent,
            'window': list(window), 'sep': sep, 'names': list(names)}
    system, residues = build_system(shape)
    total = len(residues)
    directed = [(i, j) for i in range(total) for j in range(total) if i != j]
    listed = [pair for bit, pair in enumerate(directed) if contact_bits >> bit & 1]
    contacts = [(residues[i]['old_resid'], residues[i]['chain'], residues[j]['old_resid'], residues[j]['chain']) for i, j in listed]
    if absent:
        contacts.insert(len(contacts) // 2, (999, 'A', residues[0]['old_resid'], residues[0]['chain']))
        contacts.append((residues[0]['old_resid'], 'Z', residues[-1]['old_resid'], residues[-1]['chain']))
    if reverse:
        contacts = contacts[::-1]
    system.go_params['go_map'] = [contacts]
    pre_keys = [set(mol.nodes) for mol in system.molecules]
    n_pre = sum(len(m) for m in system.molecules)
    low, high = window
    eps = 9.414
    try:
        with common.LogCapture():
            GoPipeline.run_system(system, moltype=moltype, cutoff_short=low, cutoff_long=high, go_eps=eps, res_dist=sep,
                                  go_anchor_bead=bb_name, go_atomname=site_name)
    except BaseException as err:   # the code calls sys.exit in one branch  # pylint: disable=broad-except
        acc.case(outcome='exc')
        acc.violation('c18:exception', 'GoPipeline raised %r' % (err,), case)
        return
    problems = []
    if len(system.molecules) != 1:
        problems.append(('c18:not-merged', '%d molecules after the pipeline' % len(system.molecules)))
        mol = None
    else:
        mol = system.molecules[0]
    bb_nodes, sites = [], []
    if mol is not None:
        order = list(mol.nodes)
        for pos_idx, key in enumerate(order):
            node = mol.nodes[key]
            if node.get('atomname') == bb_name and pos_idx < n_pre:
                bb_nodes.append(key)
            if pos_idx >= n_pre:
                sites.append(key)
        vs_inter = [i for i in mol.interactions.get('virtual_sitesn', [])]
        built_from = {}
        for inter in vs_inter:
            if list(inter.parameters) != ['1'] or len(inter.atoms) != 2:
                problems.append(('c18:site-construction', 'virtual_sitesn %r %r' % (inter.atoms, inter.parameters)))
                break
            built_from.setdefault(inter.atoms[0], []).append(inter.atoms[1])
        if not problems:
            if len(sites) != len(bb_nodes) or sorted(built_from) != sorted(sites) or \
                    sorted(b for lst in built_from.values() for b in lst) != sorted(bb_nodes):
                problems.append(('c18:site-count', '%d backbone particles, %d added atoms, constructions %r' % (
                    len(bb_nodes), len(sites), built_from)))
        if not problems:
            max_pre = max(order[:n_pre])
            types = []
            for site in sites:
                bb = built_from[site][0]
                sn, bn = mol.nodes[site], mol.nodes[bb]
                bad = []
                if not site > max_pre:
                    bad.append('key not above existing atoms')
                if not np.array_equal(np.asarray(sn.get('position')), np.asarray(bn.get('position'))):
                    bad.append('not co-located')
                for attr in ('resid', 'resname', 'chain'):
                    if sn.get(attr) != bn.get(attr):
                        bad.append('%s not copied' % attr)
                if sn.get('mass') != 0 or sn.get('charge') != 0:
                    bad.append('mass/charge %r/%r' % (sn.get('mass'), sn.get('charge')))
                if sn.get('atomname') != site_name:
                    bad.append('atomname %r' % sn.get('atomname'))
                expected_type = '%s_%s' % (moltype, bn.get('resid'))
                if sn.get('atype') != expected_type:
                    bad.append('type %r instead of %r' % (sn.get('atype'), expected_type))
                types.append(sn.get('atype'))
                if bad:
                    problems.append(('c18:site-attributes', 'site %r built from %r: %s' % (site, bb, '; '.join(bad))))
                    break
            if not problems and len(set(types)) != len(types):
                problems.append(('c18:site-type-not-unique', 'site types %r' % (types,)))
            if not problems:
                # the atom types that will be written: exactly one entry per site, pointing at that site
                entries = system.gmx_topology_params.get('atomtypes', [])
                entry_types = sorted(e.molecule.nodes[e.node].get('atype') for e in entries if e.node in e.molecule)
                if entry_types != sorted(types) or any(e.sigma != 0 or e.epsilon != 0 for e in entries):
                    problems.append(('c18:atomtype-entries', 'atom type entries %r for site types %r' % (entry_types, sorted(types))))
    if mol is not None and not problems:
        # ---- contacts
        gdist = residue_graph_distances(chains, xlink)
        listed_set = set(listed)
        # backbone particle and site type of every global residue index (after merging, in order)
        bb_of = dict(zip(range(total), bb_nodes))
        site_of_bb = {built_from[s][0]: s for s in sites}
        type_of = {i: mol.nodes[site_of_bb[bb_of[i]]]['atype'] for i in range(total)}
        expected = {}
        verdicts = set()
        for i, j in itertools.combinations(range(total), 2):
            both = (i, j) in listed_set and (j, i) in listed_set
            far = gdist[i].get(j) is None or gdist[i][j] > sep
            d = float(np.linalg.norm(residues[i]['pos'] - residues[j]['pos']))
            inside = low < d < high
            if (i, j) in listed_set or (j, i) in listed_set:
                verdicts.add((both, far, inside))
            if both and far and inside:
                expected[frozenset((type_of[i], type_of[j]))] = (d / 2 ** (1 / 6), frozenset((bb_of[i], bb_of[j])), (i, j))
        got = {}
        for param in system.gmx_topology_params.get('nonbond_params', []):
            key = frozenset(param.atoms)
            if key in got or len(key) != 2:
                problems.append(('c18:duplicate-potential', 'pair potential %r appears more than once' % (sorted(param.atoms),)))
                break
            got[key] = param
        if not problems:
            extra = [k for k in got if k not in expected]
            missing = [k for k in expected if k not in got]
            if extra:
                names_extra = sorted(extra[0])
                idx = [i for i in range(total) if type_of[i] in names_extra]
                why = 'unknown types'
                if len(idx) == 2:
                    i, j = idx
                    d = float(np.linalg.norm(residues[i]['pos'] - residues[j]['pos']))
                    both = (i, j) in listed_set and (j, i) in listed_set
                    far = gdist[i].get(j) is None or gdist[i][j] > sep
                    why = 'one-directional' if not both else ('too-close-in-graph' if not far else 'outside-cutoffs')
                    problems.append(('c18:unjustified-potential(%s)' % why, 'Go potential between residues %d and %d (distance %.4f, graph distance %r, '
                                     'separation %d, window %r, listed both ways: %s)' % (i, j, d, gdist[i].get(j), sep, window, both)))
                else:
                    problems.append(('c18:unjustified-potential(unknown-types)', 'Go potential between types %r' % (names_extra,)))
            elif missing:
                i, j = expected[missing[0]][2]
                problems.append(('c18:missing-potential', 'no Go potential between residues %d and %d although the contact is listed both ways, '
                                 'far enough and inside the window' % (i, j)))
            else:
                for key, (sigma, bbs, pair) in expected.items():
                    param = got[key]
                    if not abs(param.sigma - sigma) <= 1e-12 or param.epsilon != eps:
                        problems.append(('c18:wrong-sigma-epsilon', 'pair %r: sigma %r epsilon %r, expected %r %r' % (pair, param.sigma, param.epsilon, sigma, eps)))
                        break
        if not problems:
            excl = [frozenset(i.atoms) for i in mol.interactions.get('exclusions', [])]
            want = sorted(sorted(v[1]) for v in expected.values())
            if sorted(sorted(e) for e in excl) != want:
                problems.append(('c18:exclusions', 'exclusions %r, expected between backbone particles %r' % (sorted(sorted(e) for e in excl), want)))
        acc.case(nontrivial=len(verdicts) > 1 and bool(expected), outcome=(len(expected), len(got), len(sites)),
                 sample=dict(case, contact_list=[list(c) for c in contacts[:6]], potentials=len(got)) if sample else None)
    else:
        acc.case(outcome='sites-bad')
    for sig, desc in problems[:1]:
        acc.violation(sig, desc, case)


def run_sequence(item, acc):
    shape_a, bits_a, shape_b, bits_b, sep_a, sep_b = item
    before = len(acc.violations)
    check(shape_a, bits_a, False, False, WINDOWS[0], sep_a, ('molecule', 'CA'), acc)
    check(shape_b, bits_b, False, False, WINDOWS[0], sep_b, ('molname', 'VS'), acc)
    check(shape_a, bits_a, False, False, WINDOWS[0], sep_a, ('molecule', 'CA'), acc)
    for idx in range(before, len(acc.violations)):
        sig, desc, case = acc.violations[idx]
        acc.violations[idx] = (sig + '(call-sequence)', 'in a sequence of pipeline runs in one process: ' + desc,
                               {'sequence': common.jsonable(item)})


# ----------------------------------------------------------------------------- contact map files

NUMBERINGS = {
    'from-1': [('A', 1), ('A', 2), ('A', 3), ('A', 4)],
    'from-3': [('A', 3), ('A', 4), ('A', 5), ('A', 6)],
    'gap': [('A', 1), ('A', 2), ('A', 7), ('A', 8)],
    'two-chains-restart': [('A', 1), ('A', 2), ('B', 1), ('B', 2)],
    'descending': [('A', 9), ('A', 8), ('A', 7), ('A', 6)],
}
FLAGS = [('1', '0', True), ('1', '1', True), ('0', '1', True), ('0', '0', False)]     # OV, rCSU, taken?


def map_file_case(item, acc):
    """A contact map FILE in the published 18-column layout: the residues of a contact are the I(PDB) columns (with their chain
    columns), not the running residue indices I1/I2; a line counts when OV = 1, or OV = 0 and rCSU = 1."""
    import os
    import tempfile
    import vermouth
    from vermouth.rcsu.contact_map import read_go_map
    numbering, pairs_bits, flag_shift, noise = item
    residues = NUMBERINGS[numbering]
    n = len(residues)
    directed = [(i, j) for i in range(n) for j in range(n) if i != j]
    lines = ['', 'Residue-Residue Contacts', 'ID  I1 AA C I(PDB)  I2 AA C I(PDB)  DCA  CMs  rCSU Count Model']
    expected = []
    count = 0
    for idx, (i, j) in enumerate(directed):
        if not pairs_bits >> idx & 1:
            continue
        ov, rcsu, taken = FLAGS[(idx + flag_shift) % len(FLAGS)]
        count += 1
        (ci, ri), (cj, rj) = residues[i], residues[j]
        lines.append('R %5d %4d ALA %s %4d %4d GLY %s %4d %9.4f %s 1 0 %s %5d %5d 0' % (count, i + 1, ci, ri, j + 1, cj, rj, 5.5 + idx, ov, rcsu, 3, 7))
        if taken:
            expected.append((ri, ci, rj, cj))
    if noise:
        lines.insert(3, 'R 1 2 3')                       # not 18 columns: not a contact line
        lines.append('X' + lines[-1][1:] if count else 'X 1')   # first column is not R
    case = {'layer': 'map-file', 'numbering': numbering, 'pairs': pairs_bits, 'flag_shift': flag_shift, 'noise': noise}
    base = tempfile.mkdtemp(prefix='verif_c18m_', dir='/dev/shm' if os.path.isdir('/dev/shm') else None)
    path = os.path.join(base, 'contacts.out')
    with open(path, 'w') as handle:
        handle.write('\n'.join(lines) + '\n')
    system = vermouth.System()
    try:
        read_go_map(system, path)
        got = [tuple(c) for c in system.go_params['go_map'][-1]]
    except IOError:
        got = 'empty'
    except Exception as err:   # pylint: disable=broad-except
        got = 'exception %r' % (err,)
    finally:
        import shutil
        shutil.rmtree(base, ignore_errors=True)
    want = expected if expected else 'empty'
    acc.case(nontrivial=numbering != 'from-1' and bool(expected), outcome=('mapfile', numbering, len(expected), got == want))
    if got != want:
        acc.violation('c18:contact-map-file', 'numbering %s: the file lists contacts %r (I(PDB) and chain columns of the lines with OV=1 or rCSU=1); '
                      'read_go_map gave %r' % (numbering, want, got), case)


def map_file_items(tier):
    n_directed = 12
    bit_sets = [0, 1, 0b11, 0b101010101010, 0b111111111111, 0b100000000001, 0b000111000111]
    if tier != 'quick':
        bit_sets = list(range(0, 1 << n_directed, 7))
    for numbering in NUMBERINGS:
        for bits in bit_sets:
            for shift in range(len(FLAGS)):
                for noise in (False, True):
                    yield numbering, bits, shift, noise


def work(task):
    common.bind_repo()
    acc = Acc()
    if task[0] == 'map-file':
        for item in task[1]:
            map_file_case(item, acc)
        return acc
    if task[0] == 'sequence':
        # the pipeline object is a module-level instance: several systems in one process, each judged on its own
        for item in task[1]:
            run_sequence(item, acc)
        return acc
    shape, bit_lo, bit_hi, variants = task
    for bits in range(bit_lo, bit_hi):
        for reverse, absent, window, sep, names in variants:
            check(shape, bits, reverse, absent, window, sep, names, acc, sample=(acc.states % 30011 == 0))
    return acc


WINDOWS = [(0.1, 2.0), (0.5, 0.7), (0.0, 0.35)]


def run(ctx):
    ctx.bound = {'residues': '3-4' if ctx.quick else '3-5 (5: 2^14 sampled prefix of lists is NOT used; see caps)',
                 'contact_lists': 'all subsets of directed pairs'}
    tasks = []
    default_names = ('molecule', 'CA')
    for chains in ((3,), (2, 1), (4,), (2, 2), (3, 1)):
        total = sum(chains)
        ndirected = total * (total - 1)
        for sc, xlink, gapped in itertools.product((False, True), (False, True), (False, True, 'same')):
            if xlink and max(chains) < 3:
                continue
            if gapped == 'same' and len(chains) < 2:
                continue
            if total == 4 and ctx.quick and gapped and not sc:
                continue
            shape = (chains, sc, xlink, gapped, 'BB')
            if total == 3:
                variants = [(rev, ab, w, sep, default_names) for rev in (False, True) for ab in (False, True)
                            for w in WINDOWS for sep in (0, 1, 2, 3)]
            else:
                variants = [(False, False, WINDOWS[0], 1, default_names), (False, False, WINDOWS[1], 2, default_names),
                            (True, False, WINDOWS[0], 2, default_names)]
                if gapped is True or (sc and not xlink and gapped is False):
                    variants = variants[:1]
                if not ctx.quick:
                    variants = [(rev, False, w, sep, default_names) for rev in (False, True) for w in WINDOWS for sep in (0, 1, 2, 3)]
            step = max(1, (1 << ndirected) // 16)
            for lo in range(0, 1 << ndirected, step):
                tasks.append((shape, lo, min(lo + step, 1 << ndirected), variants))
    # names: custom backbone / site names and (thorough) a molecule name that is a prefix of a bead type
    name_sets = [('molecule', 'VS'), ('prot_A', 'CA'), ('P', 'CA')] + ([('S', 'CA'), ('SC', 'CA')] if not ctx.quick else [])
    for names in name_sets:
        for bbname in ('BB', 'B1'):
            shape = ((3,), True, False, False, bbname)
            tasks.append((shape, 0, 64, [(False, False, WINDOWS[0], 1, names), (False, True, WINDOWS[1], 0, names)]))
    acc = Acc()
    for part in common.pmap(work, tasks, chunksize=2):
        acc += part
    ctx.layer('contact-lists', acc)
    seqs = []
    for shape_a, shape_b in itertools.product([((3,), True, False, False, 'BB'), ((2, 1), False, False, 'same', 'BB')],
                                              [((3,), False, True, True, 'BB'), ((2, 2), True, False, False, 'BB')]):
        for bits_a, bits_b in ((0b111111, 0b101101), (0b001100, 0b111111), (0b110011, 0)):
            for sep_a, sep_b in ((0, 2), (1, 0)):
                seqs.append((shape_a, bits_a, shape_b, bits_b, sep_a, sep_b))
    acc = Acc()
    for part in common.pmap(work, [('sequence', [item]) for item in seqs], fresh=True):
        acc += part
    ctx.layer('call-sequences', acc)
    items = list(map_file_items(ctx.tier))
    acc = Acc()
    for part in common.pmap(work, [('map-file', chunk) for chunk in common.chunked(items, max(1, len(items) // 32))]):
        acc += part
    ctx.layer('contact-map-files', acc)
    from props import c18_cli
    c18_cli.run_layer(ctx)


def replay(case):
    common.bind_repo()
    acc = Acc()
    if case.get('layer') == 'cli':
        from props import c18_cli
        return c18_cli.replay(case)
    if case.get('layer') == 'map-file':
        map_file_case((case['numbering'], case['pairs'], case['flag_shift'], case['noise']), acc)
        return [(s_, d) for s_, d, _ in acc.violations]
    if 'sequence' in case:
        it = case['sequence']

        def shp(x):
            return (tuple(x[0]), x[1], x[2], x[3], x[4])
        run_sequence((shp(it[0]), it[1], shp(it[2]), it[3], it[4], it[5]), acc)
        return [(s_, d) for s_, d, _ in acc.violations]
    s = case['shape']
    check((tuple(s[0]), s[1], s[2], s[3], s[4]), case['contacts'], case['reverse'], case['absent'], tuple(case['window']),
          case['sep'], tuple(case['names']), acc)
    return [(s_, d) for s_, d, _ in acc.violations]
