"""
C09 — a particle sits at the weighted mean of the atoms it represents.

Enumerated: particles with n <= 4 constituents; weights from {0, 1/2, 1, 2, 1/3} (all n-tuples);
EVERY subset of constituents without coordinates (key absent or None); positions on an integer
lattice; centre weight absent / 'mass' (force-field variable or explicit argument) with masses
{1, 12, 16}; an atom shared by two particles; every case under the 24 axis rotations x 3 lattice
translations; one processor instance reused over every sequence (<= 3) of molecules whose force
fields configure different centre weights.
Oracle: exact rational weighted mean over the positioned constituents (fractions.Fraction); NaN iff
that weight sum is zero; inside the bounding box; commutes with each rigid motion.
"""
import itertools
from fractions import Fraction

from mc import common
from mc.common import Acc

RULE = ("every (weights tuple, missing subset, centre-weight mode) for n = 1..4, each under 72 rigid motions; distinct = "
        "distinct tuples; non-trivial = unequal weights or a missing constituent")
ASSUMPTIONS = ["a constituent 'without coordinates' has no position key or position None (what RepairGraph leaves for rebuilt atoms)",
               "weights are given for every constituent (the documented default of 1 for absent table entries is exercised separately)"]

WEIGHTS = [Fraction(0), Fraction(1, 2), Fraction(1), Fraction(2), Fraction(1, 3)]
LATTICE = [(0, 0, 0), (3, 1, -2), (-1, 4, 2), (5, -3, 1)]
MASSES = [1, 12, 16, 12]


def rotations():
    """The 24 proper axis-aligned rotations as 3x3 integer matrices."""
    mats = []
    for perm in itertools.permutations(range(3)):
        for signs in itertools.product((1, -1), repeat=3):
            mat = [[0] * 3 for _ in range(3)]
            for row in range(3):
                mat[row][perm[row]] = signs[row]
            det = (mat[0][0] * (mat[1][1] * mat[2][2] - mat[1][2] * mat[2][1])
                   - mat[0][1] * (mat[1][0] * mat[2][2] - mat[1][2] * mat[2][0])
                   + mat[0][2] * (mat[1][0] * mat[2][1] - mat[1][1] * mat[2][0]))
            if det == 1:
                mats.append(mat)
    return mats


ROTS = rotations()
TRANS = [(0, 0, 0), (7, -2, 3), (-100, 50, 1)]


def move(vec, rot, trans):
    return tuple(sum(rot[r][c] * vec[c] for c in range(3)) + trans[r] for r in range(3))


def reference(weights, positions, masses, use_mass):
    """positions: list of tuple or None. Returns tuple of Fractions or None (undefined)."""
    total = Fraction(0)
    acc = [Fraction(0)] * 3
    for w, pos, mass in zip(weights, positions, masses):
        if pos is None:
            continue
        eff = w * (mass if use_mass else 1)
        total += eff
        for k in range(3):
            acc[k] += eff * pos[k]
    if total == 0:
        return None
    return tuple(a / total for a in acc)


def build_particle(weights, positions, masses, missing_style, with_table=True, ff=None):
    import networkx as nx
    import numpy as np
    import vermouth
    mol = vermouth.molecule.Molecule(force_field=ff)
    sub = nx.Graph()
    keys = [11 + 3 * i for i in range(len(weights))]
    for key, pos, mass in zip(keys, positions, masses):
        attrs = {'atomname': 'A%d' % key, 'mass': mass}
        if pos is not None:
            attrs['position'] = np.array(pos, dtype=float)
        elif missing_style == 'none':
            attrs['position'] = None
        sub.add_node(key, **attrs)
    attrs = {'graph': sub, 'atomname': 'BB'}
    if with_table:
        attrs['mapping_weights'] = {key: float(w) for key, w in zip(keys, weights)}
    mol.add_node(0, **attrs)
    return mol


def judge(got, expected, positions, label, case, acc):
    import numpy as np
    got = np.asarray(got, dtype=float)
    if expected is None:
        if not np.all(np.isnan(got)):
            acc.violation('c09:defined-although-weights-sum-to-zero',
                          '%s: position %r although the positioned constituents have zero total weight' % (label, got.tolist()), case)
            return False
        return True
    if np.any(np.isnan(got)):
        acc.violation('c09:nan-although-defined', '%s: position is NaN, the weighted mean is %r' % (label, [float(x) for x in expected]), case)
        return False
    want = np.array([float(x) for x in expected])
    if np.max(np.abs(got - want)) > 1e-9 * max(1.0, np.max(np.abs(want))):
        present = [p for p in positions if p is not None]
        lo = np.min(present, axis=0)
        hi = np.max(present, axis=0)
        outside = np.any(got < lo - 1e-9) or np.any(got > hi + 1e-9)
        acc.violation('c09:outside-bounding-box' if outside else 'c09:wrong-mean',
                      '%s: position %r, weighted mean of the positioned constituents is %r' % (label, got.tolist(), want.tolist()), case)
        return False
    return True


def check_case(n, weights, missing, mode, missing_style, acc, motions=True, sample=False):
    """mode: 'plain' | 'arg-mass' | 'ff-mass' | 'ff-mass-off'"""
    from vermouth.processors.average_beads import do_average_bead, DoAverageBead
    from vermouth.forcefield import ForceField
    case = {'layer': 'mean', 'n': n, 'weights': [str(w) for w in weights], 'missing': list(missing), 'mode': mode,
            'missing_style': missing_style}
    base_positions = [None if i in missing else LATTICE[i] for i in range(n)]
    masses = MASSES[:n]
    use_mass = mode in ('arg-mass', 'ff-mass')
    nontrivial = len(set(weights)) > 1 or bool(missing)
    first = True
    for rot, trans in (itertools.product(ROTS, TRANS) if motions else [(ROTS[0], TRANS[0])]):
        positions = [None if p is None else move(p, rot, trans) for p in base_positions]
        expected = reference(weights, positions, masses, use_mass)
        ff = None
        if mode.startswith('ff-'):
            ff = ForceField(name='ffm')
            ff.variables['center_weight'] = 'mass'
        mol = build_particle(weights, positions, masses, missing_style, ff=ff)
        try:
            if mode == 'plain':
                do_average_bead(mol)
            elif mode == 'arg-mass':
                do_average_bead(mol, weight='mass')
            elif mode == 'ff-mass':
                DoAverageBead().run_molecule(mol)
            else:
                DoAverageBead(weight=False).run_molecule(mol)
        except Exception as err:   # pylint: disable=broad-except
            acc.case(outcome='exc')
            acc.violation('c09:exception', 'averaging raised %r' % (err,), case)
            return
        got = mol.nodes[0]['position']
        acc.case(nontrivial=nontrivial, outcome=None if not first else ('m', n, expected is None, mode),
                 sample=dict(case, position=[float(x) for x in got]) if (sample and first) else None)
        first = False
        if not judge(got, expected, positions, '%s rot/trans %r' % (mode, (rot, trans)), case, acc):
            return
        # equivariance: expected of the moved input == moved expected of the base input (exact arithmetic)
        base_expected = reference(weights, base_positions, masses, use_mass)
        if base_expected is not None and expected != move(base_expected, rot, trans):
            raise common.HarnessError('reference model is not equivariant')


def check_default_weight(acc):
    """Documented: atoms absent from the weight table weigh 1; no table at all: plain mean."""
    from vermouth.processors.average_beads import do_average_bead
    for n in (2, 3, 4):
        positions = [LATTICE[i] for i in range(n)]
        mol = build_particle([Fraction(1)] * n, positions, MASSES[:n], 'absent', with_table=False)
        do_average_bead(mol)
        case = {'layer': 'default-weight', 'n': n}
        acc.case(nontrivial=True, outcome=('d', n))
        judge(mol.nodes[0]['position'], reference([Fraction(1)] * n, positions, MASSES[:n], False), positions, 'no weight table', case, acc)


def check_shared(acc):
    """Two particles sharing an atom, and an atom-less particle next to them."""
    import networkx as nx
    import numpy as np
    import vermouth
    from vermouth.processors.average_beads import do_average_bead
    for w_shared_a, w_shared_b in itertools.product(WEIGHTS, repeat=2):
        mol = vermouth.molecule.Molecule()
        atoms = {1: LATTICE[0], 2: LATTICE[1], 3: LATTICE[2]}
        graph_a, graph_b = nx.Graph(), nx.Graph()
        for key in (1, 2):
            graph_a.add_node(key, position=np.array(atoms[key], dtype=float))
        for key in (2, 3):
            graph_b.add_node(key, position=np.array(atoms[key], dtype=float))
        mol.add_node(0, graph=graph_a, mapping_weights={1: 1.0, 2: float(w_shared_a)})
        mol.add_node(1, graph=graph_b, mapping_weights={2: float(w_shared_b), 3: 1.0})
        mol.add_node(2, graph=nx.Graph(), mapping_weights={})
        case = {'layer': 'shared', 'wa': str(w_shared_a), 'wb': str(w_shared_b)}
        try:
            do_average_bead(mol)
        except Exception as err:   # pylint: disable=broad-except
            acc.case(outcome='exc')
            acc.violation('c09:exception', 'averaging raised %r' % (err,), case)
            continue
        acc.case(nontrivial=True, outcome=('s', str(w_shared_a), str(w_shared_b)))
        judge(mol.nodes[0]['position'], reference([Fraction(1), w_shared_a], [atoms[1], atoms[2]], [1, 1], False),
              [atoms[1], atoms[2]], 'particle A', case, acc)
        judge(mol.nodes[1]['position'], reference([w_shared_b, Fraction(1)], [atoms[2], atoms[3]], [1, 1], False),
              [atoms[2], atoms[3]], 'particle B', case, acc)
        judge(mol.nodes[2]['position'], None, [], 'particle built from no atom', case, acc)


def check_processor_reuse(order, acc):
    """One DoAverageBead instance over a sequence of molecules with different force fields."""
    from vermouth.processors.average_beads import DoAverageBead
    from vermouth.forcefield import ForceField
    ffs = {}
    for name, var in (('mass', 'mass'), ('none', None), ('other', 'other')):
        ff = ForceField(name='ff_' + name)
        if var:
            ff.variables['center_weight'] = var
        ffs[name] = ff
    processor = DoAverageBead()
    weights = [Fraction(1), Fraction(1, 2), Fraction(2)]
    positions = [LATTICE[0], LATTICE[1], LATTICE[2]]
    masses = [1, 12, 16]
    others = [5, 1, 2]
    case = {'layer': 'reuse', 'order': list(order)}
    for step, name in enumerate(order):
        mol = build_particle(weights, positions, masses, 'absent', ff=ffs[name])
        for sub, oth in zip(mol.nodes[0]['graph'].nodes.values(), others):
            sub['other'] = oth
        try:
            processor.run_molecule(mol)
        except Exception as err:   # pylint: disable=broad-except
            acc.case(outcome='exc')
            acc.violation('c09:exception', 'processor raised %r at step %d' % (err, step), case)
            return
        eff_masses = {'mass': masses, 'none': [1, 1, 1], 'other': others}[name]
        expected = reference(weights, positions, eff_masses, True)
        acc.case(nontrivial=True, outcome=('r', name, step))
        if not judge(mol.nodes[0]['position'], expected, positions,
                     'step %d (force field centre weight: %s) of one processor instance' % (step, name), case, acc):
            return


def work(task):
    common.bind_repo()
    kind, payload = task
    acc = Acc()
    if kind == 'mean':
        n, weight_tuples = payload
        for idx, weights in enumerate(weight_tuples):
            for r in range(n + 1):
                for missing in itertools.combinations(range(n), r):
                    for mode in ('plain', 'arg-mass', 'ff-mass', 'ff-mass-off'):
                        check_case(n, weights, missing, mode, 'absent' if (idx + r) % 2 else 'none', acc,
                                   motions=(mode in ('plain', 'ff-mass')), sample=(idx % 97 == 0 and r == 1 and mode == 'ff-mass'))
    else:
        check_default_weight(acc)
        check_shared(acc)
        for length in (1, 2, 3):
            for order in itertools.product(('mass', 'none', 'other'), repeat=length):
                check_processor_reuse(order, acc)
    return acc


def run(ctx):
    nmax = 4
    wmenu = WEIGHTS
    ctx.bound = {'constituents': nmax, 'weights': [str(w) for w in wmenu], 'motions': len(ROTS) * len(TRANS)}
    tasks = []
    for n in range(1, nmax + 1):
        tuples = list(itertools.product(wmenu, repeat=n))
        if ctx.quick and n == 4:
            # quick: all tuples with at most 3 distinct values at n=4 (the full 625 in thorough)
            tuples = [t for t in tuples if len(set(t)) <= 3]
        for chunk in common.chunked(tuples, max(1, len(tuples) // 24)):
            tasks.append(('mean', (n, chunk)))
    tasks.append(('misc', None))
    acc = Acc()
    for part in common.pmap(work, tasks):
        acc += part
    ctx.layer('weighted-mean', acc)
    from props import c09_e2e
    c09_e2e.run_layer(ctx)


def replay(case):
    common.bind_repo()
    acc = Acc()
    layer = case.get('layer')
    if str(layer).startswith('e2e'):
        from props import c09_e2e
        return c09_e2e.replay(case)
    if layer == 'mean':
        check_case(case['n'], [Fraction(w) for w in case['weights']], tuple(case['missing']), case['mode'],
                   case['missing_style'], acc)
    elif layer == 'reuse':
        check_processor_reuse(tuple(case['order']), acc)
    elif layer == 'shared':
        check_shared(acc)
    else:
        check_default_weight(acc)
    return [(s, d) for s, d, _ in acc.violations]
