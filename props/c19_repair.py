"""
C19 layer "repair": requests annotated by the real AnnotateMutMod on tripeptides built from the shipped
charmm blocks, then the real RepairGraph.  Afterwards the marked residue must consist of exactly the atoms
of the requested block (plus the added atoms of the requested modification), carry the requested residue
name, and hold no surplus atom of the old residue; unmarked residues keep their block's atoms.
"""
import itertools

from mc import common
from mc.common import Acc

TYPES = ['ALA', 'GLY', 'SER', 'VAL']
_FF = {}


def charmm():
    if 'ff' not in _FF:
        import pathlib
        import vermouth
        import vermouth.forcefield
        _FF['ff'] = vermouth.forcefield.ForceField(pathlib.Path(vermouth.DATA_PATH) / 'force_fields' / 'charmm')
    return _FF['ff']


def tripeptide(sequence, ff):
    import vermouth
    mol = vermouth.molecule.Molecule(force_field=ff)
    by_res = []
    for idx, resname in enumerate(sequence):
        block = ff.blocks[resname]
        part = block.to_molecule()
        for node in part.nodes.values():
            # an input structure only knows names (like a PDB), nothing else of the block's bookkeeping
            for attr in list(node):
                if attr not in ('atomname', 'resname', 'element', 'charge_group'):
                    del node[attr]
            node['resid'] = 1
            node['chain'] = 'A'
        corr = mol.merge_molecule(part) if len(mol) else None
        if corr is None:
            # first residue: merge into the empty molecule
            corr = mol.merge_molecule(part)
        names = {mol.nodes[new]['atomname']: new for new in corr.values()}
        by_res.append(names)
    for idx in range(len(sequence) - 1):
        mol.add_edge(by_res[idx]['C'], by_res[idx + 1]['N'])
    for idx, names in enumerate(by_res):
        for key in names.values():
            mol.nodes[key]['resid'] = idx + 1
            mol.nodes[key]['chain'] = 'A'
            mol.nodes[key].pop('PTM_atom', None)
    return mol, by_res


def block_names(ff, resname):
    return sorted(d['atomname'] for _, d in ff.blocks[resname].nodes(data=True))


def mod_added_names(ff, modname):
    mod = ff.modifications[modname]
    return sorted(d['atomname'] for _, d in mod.nodes(data=True) if d.get('PTM_atom'))


def check_repair(case, acc, sample=False):
    import vermouth
    from vermouth.processors.annotate_mut_mod import AnnotateMutMod
    from vermouth.processors.repair_graph import RepairGraph
    ff = charmm()
    sequence = case['sequence']
    mutations = [tuple(m) for m in case['mutations']]
    modifications = [tuple(m) for m in case['modifications']]
    full = dict(case, layer='repair')
    system = vermouth.System(force_field=ff)
    mol, by_res = tripeptide(sequence, ff)
    # atoms beyond the block on residues that NO request names (a protonated side chain, an unknown substituent): RepairGraph
    # only flags them as unrecognised; removing surplus atoms is for the residues a request rebuilds
    extras = [tuple(e) for e in case.get('extras', [])]
    for ridx, anchor, newname, element in extras:
        key = max(mol.nodes) + 1
        mol.add_node(key, atomname=newname, resname=sequence[ridx], resid=ridx + 1, chain='A', element=element)
        mol.add_edge(key, by_res[ridx][anchor])
    system.add_molecule(mol)
    def library_state():
        # only the request attributes: RepairGraph also caches a derived 'element' on block atoms, which is harmless
        return {name: {key: {a: attrs[a] for a in ('mutation', 'modification') if a in attrs}
                       for key, attrs in ff.blocks[name].nodes(data=True)} for name in TYPES}
    library_before = library_state()
    try:
        with common.LogCapture():
            AnnotateMutMod(modifications=modifications, mutations=mutations).run_system(system)
            RepairGraph().run_system(system)
    except Exception as err:   # pylint: disable=broad-except
        acc.case(outcome='exc')
        acc.violation('c19:repair-exception', 'annotate + repair raised %r' % (err,), full)
        return
    out = system.molecules[0]
    # expected per residue
    expected = {}
    for idx, resname in enumerate(sequence):
        resid = idx + 1
        target = resname
        for spec, new in mutations:
            if spec == '%s%d' % (resname, resid) or spec == '#%d' % resid:
                target = new
        names = block_names(ff, target)
        for spec, modname in modifications:
            is_first, is_last = idx == 0, idx == len(sequence) - 1
            if (spec == 'nter' and is_first) or (spec == 'cter' and is_last) or spec == '#%d' % resid:
                if modname != 'none':
                    names = sorted(names + mod_added_names(ff, modname))
        named = target != resname or any((spec == 'nter' and idx == 0) or (spec == 'cter' and idx == len(sequence) - 1) or spec == '#%d' % resid
                                         for spec, _ in modifications)
        if not named:
            names = sorted(names + [newname for ridx, _, newname, _ in extras if ridx == idx])
        expected[resid] = (target, names)
    got = {}
    flagged = {}
    for key, node in out.nodes(data=True):
        got.setdefault(node['resid'], []).append(node.get('atomname'))
        if node.get('PTM_atom'):
            flagged.setdefault(node['resid'], []).append(node.get('atomname'))
        resnames = got  # noqa
    problems = []
    library_after = library_state()
    if library_after != library_before:
        changed = [name for name in TYPES if library_after[name] != library_before[name]]
        example = next(iter(library_after[changed[0]].items()))
        problems.append(('c19:force-field-polluted', 'repairing with requests %r / %r changed the force field blocks %r themselves '
                         '(e.g. atom %r now %r): every later residue of that type inherits the request' % (
                             mutations, modifications, changed, example[0], example[1])))
        # restore, so that the following cases start clean
        for name in changed:
            for key, attrs in library_before[name].items():
                node = ff.blocks[name].nodes[key]
                for attr in ('mutation', 'modification'):
                    node.pop(attr, None)
                node.update(attrs)
    requested_resids = set()
    for idx, resname in enumerate(sequence):
        for spec, _ in mutations:
            if spec == '%s%d' % (resname, idx + 1) or spec == '#%d' % (idx + 1):
                requested_resids.add(idx + 1)
        for spec, _ in modifications:
            if (spec == 'nter' and idx == 0) or (spec == 'cter' and idx == len(sequence) - 1) or spec == '#%d' % (idx + 1):
                requested_resids.add(idx + 1)
    for key, node in out.nodes(data=True):
        if node['resid'] not in requested_resids and (node.get('mutation') or node.get('modification')) and not problems:
            problems.append(('c19:request-leaks-to-other-residue', 'atom %s of residue %d carries mutation=%r modification=%r although no request '
                             'names that residue' % (node.get('atomname'), node['resid'], node.get('mutation'), node.get('modification'))))
    for resid, (target, names) in expected.items():
        have = sorted(got.get(resid, []))
        resn = {node['resname'] for _, node in out.nodes(data=True) if node['resid'] == resid}
        if have != names:
            surplus = sorted(set(have) - set(names))
            lacking = sorted(set(names) - set(have))
            sig = 'c19:repair-surplus-atoms' if surplus else 'c19:repair-atoms-missing'
            problems.append((sig, 'residue %d (%s -> %s): atoms after repair %r; requested block/modification has %r (surplus %r, lacking %r)' % (
                resid, sequence[resid - 1], target, have, names, surplus, lacking)))
            break
        # bonds of the residue, by canonical name: the requested block's bonds plus those of the requested modifications
        want_bonds = {frozenset((ff.blocks[target].nodes[a]['atomname'], ff.blocks[target].nodes[b]['atomname'])) for a, b in ff.blocks[target].edges}
        for spec, modname in modifications:
            is_first, is_last = resid == 1, resid == len(sequence)
            if modname != 'none' and ((spec == 'nter' and is_first) or (spec == 'cter' and is_last) or spec == '#%d' % resid):
                mod = ff.modifications[modname]
                want_bonds |= {frozenset((mod.nodes[a]['atomname'], mod.nodes[b]['atomname'])) for a, b in mod.edges}
        if not any(t for t in [target != sequence[resid - 1]]) and not any(
                (spec == 'nter' and resid == 1) or (spec == 'cter' and resid == len(sequence)) or spec == '#%d' % resid for spec, _ in modifications):
            want_bonds |= {frozenset((anchor, newname)) for ridx, anchor, newname, _ in extras if ridx == resid - 1}
        have_bonds = {frozenset((out.nodes[a]['atomname'], out.nodes[b]['atomname'])) for a, b in out.edges
                      if out.nodes[a]['resid'] == resid and out.nodes[b]['resid'] == resid}
        if have_bonds != want_bonds:
            problems.append(('c19:repair-bonds', 'residue %d (%s -> %s): bonds by name differ from the requested block/modification: %r' % (
                resid, sequence[resid - 1], target, sorted(map(sorted, have_bonds ^ want_bonds))[:4])))
            break
        if resn != {target}:
            problems.append(('c19:repair-resname', 'residue %d carries residue names %r after the request for %s' % (resid, resn, target)))
            break
        allowed = {newname for ridx, _, newname, _ in extras if ridx == resid - 1}
        for spec, modname in modifications:
            if modname != 'none':
                allowed |= set(mod_added_names(ff, modname))
        if set(flagged.get(resid, [])) - allowed:
            problems.append(('c19:repair-unrecognised-left', 'residue %d still has atoms marked unrecognised: %r' % (resid, flagged[resid])))
            break
    acc.case(nontrivial=bool(mutations or modifications), outcome=(tuple(sequence), len(mutations), len(modifications), len(out)),
             sample=full if sample else None)
    for sig, desc in problems[:1]:
        acc.violation(sig, desc, full)


def cases():
    out = []
    for old, new, pos in itertools.product(TYPES, TYPES, (0, 1, 2)):
        seq = ['ALA', 'GLY', 'SER']
        seq[pos] = old
        out.append({'sequence': seq, 'mutations': [('%s%d' % (old, pos + 1), new)], 'modifications': []})
    for resname in TYPES:
        for spec, modname in (('nter', 'N-ter'), ('nter', 'NH2-ter'), ('cter', 'C-ter'), ('cter', 'COOH-ter'), ('cter', 'none')):
            seq = [resname, 'GLY', resname]
            out.append({'sequence': seq, 'mutations': [], 'modifications': [(spec, modname)]})
        for new in TYPES:
            seq = ['GLY', 'ALA', resname]
            out.append({'sequence': seq, 'mutations': [('#3', new)], 'modifications': [('cter', 'C-ter'), ('nter', 'N-ter')]})
    # two modification requests on ONE residue (a protonated side chain on a terminal residue), in both orders
    for seq, side in ((['GLU', 'GLY', 'ALA'], ('#1', 'GLU-HE1')), (['ALA', 'GLY', 'ASP'], ('#3', 'ASP-HD1'))):
        term = ('nter', 'N-ter') if side[0] == '#1' else ('cter', 'C-ter')
        if side[1] in charmm().modifications:
            out.append({'sequence': seq, 'mutations': [], 'modifications': [side, term]})
            out.append({'sequence': seq, 'mutations': [], 'modifications': [term, side]})
    # a residue that no request names carries an extra atom, before / after the residue(s) the requests rebuild
    for seq, extra in ((['ALA', 'GLU', 'ALA'], (1, 'OE2', 'HE2', 'H')), (['ALA', 'SER', 'ALA'], (1, 'OG', 'PX', 'P')),
                       (['GLU', 'GLY', 'ALA'], (0, 'OE2', 'HE2', 'H')), (['ALA', 'GLY', 'ASP'], (2, 'OD2', 'HD2', 'H'))):
        ridx = extra[0]
        requests = []
        for pos in range(3):
            if pos != ridx:
                requests.append(([('%s%d' % (seq[pos], pos + 1), 'VAL')], []))
        if ridx != 0:
            requests.append(([], [('nter', 'N-ter')]))
        if ridx != 2:
            requests.append(([], [('cter', 'C-ter')]))
        if ridx == 1:
            requests.append(([('ALA1', 'GLY')], [('cter', 'C-ter'), ('nter', 'N-ter')]))
        requests.append(([], []))
        for mutations, modifications in requests:
            out.append({'sequence': seq, 'mutations': mutations, 'modifications': modifications, 'extras': [extra]})
    return out


def work_items(items, acc):
    for n, case in enumerate(items):
        check_repair(case, acc, sample=(n % 23 == 0))


def run_layer(ctx):
    from props import c19
    items = cases()
    acc = Acc()
    for part in common.pmap(c19.work, [('repair', chunk) for chunk in common.chunked(items, max(1, len(items) // 8))]):
        acc += part
    ctx.layer('repair', acc)


def replay(case):
    acc = Acc()
    check_repair({k: v for k, v in case.items() if k != 'layer'}, acc)
    return [(s, d) for s, d, _ in acc.violations]
