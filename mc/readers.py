"""
Independent readers for the text formats vermouth writes (ITP, TOP, PDB, GRO).
They share no code with vermouth's own parsers and return plain records.
"""
import re

# number of leading atom columns per ITP section (None: every token is an atom)
ITP_ATOMS = {
    'bonds': 2, 'pairs': 2, 'pairs_nb': 2, 'constraints': 2, 'angles': 3, 'dihedrals': 4, 'cmap': 5,
    'exclusions': None, 'position_restraints': 1, 'settles': 1, 'virtual_sites2': 3, 'virtual_sites3': 4,
    'virtual_sites4': 5, 'distance_restraints': 2, 'dihedral_restraints': 4, 'orientation_restraints': 2,
    'angle_restraints': 4, 'angle_restraints_z': 2, 'virtual_sites1': 2,
}


class FormatError(Exception):
    pass


def read_itp(text):
    """Returns dict(moltype, nrexcl, atoms=[dict], interactions=[(section, guard, atoms, params)], defines, unbalanced)
    guard is a tuple of (kind, name) from the enclosing #ifdef/#ifndef, outermost first."""
    out = {'moltype': None, 'nrexcl': None, 'atoms': [], 'interactions': [], 'sections': [], 'defines': {}}
    section = None
    guards = []
    for lineno, raw in enumerate(text.splitlines(), 1):
        line = raw.split(';', 1)[0].strip()
        if not line:
            continue
        if line.startswith('#'):
            tokens = line.split()
            if tokens[0] in ('#ifdef', '#ifndef'):
                guards.append((tokens[0][1:], tokens[1]))
            elif tokens[0] == '#else':
                if not guards:
                    raise FormatError('line %d: #else without #if' % lineno)
                kind, name = guards.pop()
                guards.append(('ifndef' if kind == 'ifdef' else 'ifdef', name))
            elif tokens[0] == '#endif':
                if not guards:
                    raise FormatError('line %d: #endif without #if' % lineno)
                guards.pop()
            elif tokens[0] == '#define':
                out['defines'][tokens[1]] = (tokens[2] if len(tokens) > 2 else '', tuple(guards))
            elif tokens[0] == '#include':
                pass
            else:
                raise FormatError('line %d: unknown directive %r' % (lineno, line))
            continue
        match = re.match(r'^\[\s*(\S+)\s*\]$', line)
        if match:
            section = match.group(1)
            out['sections'].append((section, tuple(guards)))
            continue
        tokens = line.split()
        if section == 'moleculetype':
            out['moltype'], out['nrexcl'] = tokens[0], tokens[1]
        elif section == 'atoms':
            if len(tokens) < 6:
                raise FormatError('line %d: atom line with %d fields' % (lineno, len(tokens)))
            atom = {'idx': int(tokens[0]), 'atype': tokens[1], 'resid': tokens[2], 'resname': tokens[3],
                    'atomname': tokens[4], 'charge_group': tokens[5],
                    'charge': tokens[6] if len(tokens) > 6 else '', 'mass': tokens[7] if len(tokens) > 7 else '',
                    'guard': tuple(guards)}
            out['atoms'].append(atom)
        elif section is None:
            raise FormatError('line %d: content before any section' % lineno)
        else:
            if section == 'virtual_sitesn':
                if len(tokens) < 2:
                    raise FormatError('line %d: virtual_sitesn needs site and function' % lineno)
                atoms = [tokens[0]] + tokens[2:]
                params = [tokens[1]]
            else:
                natoms = ITP_ATOMS.get(section, 'unknown')
                if natoms == 'unknown':
                    raise FormatError('line %d: unknown section %r' % (lineno, section))
                if natoms is None:
                    atoms, params = tokens, []
                else:
                    atoms, params = tokens[:natoms], tokens[natoms:]
                    if len(atoms) < natoms:
                        raise FormatError('line %d: too few atoms for %s' % (lineno, section))
            try:
                atoms = [int(a) for a in atoms]
            except ValueError:
                raise FormatError('line %d: non-integer atom reference in %r' % (lineno, line))
            out['interactions'].append((section, tuple(guards), tuple(atoms), tuple(params)))
    out['unbalanced'] = list(guards)
    return out


def read_top(text):
    """Returns dict(includes=[...], defines=[...], molecules=[(name, count)], system=str)."""
    out = {'includes': [], 'defines': [], 'molecules': [], 'system': None}
    section = None
    for raw in text.splitlines():
        line = raw.split(';', 1)[0].strip()
        if not line:
            continue
        if line.startswith('#include'):
            match = re.match(r'#include\s+"([^"]+)"', line)
            if not match:
                raise FormatError('bad include %r' % line)
            out['includes'].append(match.group(1))
            continue
        if line.startswith('#define'):
            out['defines'].append(line.split(None, 1)[1])
            continue
        if line.startswith('#'):
            continue
        match = re.match(r'^\[\s*(\S+)\s*\]$', line)
        if match:
            section = match.group(1)
            continue
        if section == 'molecules':
            name, count = line.split()
            out['molecules'].append((name, int(count)))
        elif section == 'system':
            out['system'] = line
    return out


def read_pdb(text):
    """Fixed-column reader. Returns dict(atoms=[dict], ters=[index into atoms after which TER], conect={serial:[serials]})."""
    atoms, ters, conect = [], [], []
    for raw in text.splitlines():
        rec = raw[:6]
        if rec in ('ATOM  ', 'HETATM'):
            line = raw.ljust(80)
            atoms.append({
                'serial': line[6:11], 'atomname': line[12:16], 'altloc': line[16], 'resname': line[17:20],
                'resname4': line[17:21], 'chain': line[21], 'resid': line[22:26], 'icode': line[26],
                'x': line[30:38], 'y': line[38:46], 'z': line[46:54], 'occ': line[54:60], 'bfac': line[60:66],
                'element': line[76:78], 'charge': line[78:80], 'raw': raw})
        elif rec.startswith('TER'):
            ters.append(len(atoms))
        elif rec == 'CONECT':
            body = raw[6:]
            fields = [body[i:i + 5] for i in range(0, len(body), 5)]
            fields = [f for f in fields if f.strip()]
            conect.append(fields)
    return {'atoms': atoms, 'ters': ters, 'conect': conect}


def read_gro(text):
    lines = text.split('\n')
    title = lines[0]
    natoms = int(lines[1])
    atoms = []
    for raw in lines[2:2 + natoms]:
        # columns: resid 5, resname 5, atomname 5, atomid 5, then positions
        body = raw[20:]
        width = None
        atoms.append({'resid': raw[0:5], 'resname': raw[5:10], 'atomname': raw[10:15], 'atomid': raw[15:20],
                      'rest': body, 'raw': raw})
    box = lines[2 + natoms] if len(lines) > 2 + natoms else ''
    return {'title': title, 'natoms': natoms, 'atoms': atoms, 'box': box}
