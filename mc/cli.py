"""
In-process driver for bin/martinize2 (DESIGN §3a).

The script is loaded UNCHANGED as a module with SourceFileLoader; `entry()` is its own
code.  Only the loading of shipped data is memoised per process, and the state that a
process exit would reset (warning counter, pending deferred files) is reset between runs.
"""
import contextlib
import importlib.machinery
import importlib.util
import io
import logging
import os
import sys

from . import common

_SCRIPT = None


def load_script():
    """Load <repo>/bin/martinize2 as a module (once per process)."""
    global _SCRIPT
    if _SCRIPT is not None:
        return _SCRIPT
    path = os.path.join(common.REPO, 'bin', 'martinize2')
    loader = importlib.machinery.SourceFileLoader('martinize2_script', path)
    spec = importlib.util.spec_from_loader('martinize2_script', loader)
    module = importlib.util.module_from_spec(spec)
    with contextlib.redirect_stderr(io.StringIO()):
        loader.exec_module(module)
    # the script installs a console handler on the 'vermouth' logger: silence its stream
    module.CONSOLE_HANDLER.setStream(io.StringIO())
    _SCRIPT = module
    return module


# ---------------------------------------------------------------------------- driver

_MEMO = {}


class _Collector(logging.Handler):
    def __init__(self):
        super().__init__(level=1)
        self.records = []

    def emit(self, record):
        self.records.append((record.levelno, getattr(record, 'type', 'general')))


def _memoise(script):
    """Parse the shipped data once per process; hand out fresh outer containers per call."""
    import copy
    import vermouth.forcefield
    if 'installed' in _MEMO:
        return
    real_find = vermouth.forcefield.find_force_fields
    real_read = script.read_mapping_directory
    real_self = script.generate_all_self_mappings
    _MEMO['real'] = (real_find, real_read, real_self)

    def find_force_fields(directory, force_fields=None):
        key = ('ff', str(directory))
        if _MEMO.get('bypass'):
            return real_find(directory) if force_fields is None else real_find(directory, force_fields)
        if force_fields is not None:
            return real_find(directory, force_fields)
        if key not in _MEMO:
            _MEMO[key] = real_find(directory)
        return dict(_MEMO[key])

    def read_mapping_directory(directory, force_fields):
        key = ('map', str(directory), tuple(sorted(force_fields)))
        if _MEMO.get('bypass'):
            return real_read(directory, force_fields)
        if key not in _MEMO:
            _MEMO[key] = real_read(directory, force_fields)
        # two levels of dicts are combined/mutated by the script (combine_mappings)
        return collections_copy(_MEMO[key])

    def generate_all_self_mappings(force_fields):
        force_fields = list(force_fields)
        key = ('self', tuple(sorted(ff.name for ff in force_fields)))
        if _MEMO.get('bypass'):
            return real_self(force_fields)
        if key not in _MEMO:
            _MEMO[key] = real_self(force_fields)
        return collections_copy(_MEMO[key])

    vermouth.forcefield.find_force_fields = find_force_fields
    script.read_mapping_directory = read_mapping_directory
    script.generate_all_self_mappings = generate_all_self_mappings
    _MEMO['installed'] = True


def collections_copy(mappings):
    """Copy the nesting of dicts (from_ff -> to_ff -> name -> Mapping) without copying Mapping objects."""
    import collections
    out = collections.defaultdict(lambda: collections.defaultdict(dict))
    for from_ff, to_dict in mappings.items():
        for to_ff, names in to_dict.items():
            out[from_ff][to_ff] = dict(names)
    return out


def script_path():
    return os.path.join(common.REPO, 'bin', 'martinize2')


def run_inprocess(argv, workdir):
    """Run the script's own entry() with sys.argv = [script] + argv in `workdir`.
    Returns dict(exit, records=[(level,type)], stderr=str)."""
    import tempfile
    import traceback
    from vermouth.file_writer import DeferredFileWriter
    script = load_script()
    _memoise(script)
    collector = _Collector()
    logger = logging.getLogger('vermouth')
    old_cwd = os.getcwd()
    old_argv = sys.argv
    old_tmp = tempfile.tempdir
    stream = io.StringIO()
    script.CONSOLE_HANDLER.setStream(stream)
    script.COUNTER.counts.clear()
    writer = DeferredFileWriter()
    writer.close()
    code = 0
    err_text = ''
    logger.addHandler(collector)
    # a run that extends force fields (-ff-dir / -map-dir) changes the parsed objects in place: it gets its own parse
    _MEMO['bypass'] = any(str(a) in ('-ff-dir', '-map-dir') for a in argv)
    try:
        os.chdir(workdir)
        tmpdir = os.path.join(os.path.dirname(os.path.abspath(workdir)), 'tmp_' + os.path.basename(workdir))
        os.makedirs(tmpdir, exist_ok=True)
        tempfile.tempdir = tmpdir
        sys.argv = [script_path()] + [str(a) for a in argv]
        out, err = io.StringIO(), io.StringIO()
        with contextlib.redirect_stdout(out), contextlib.redirect_stderr(err):
            try:
                script.entry()
            except SystemExit as exc:
                code = exc.code if isinstance(exc.code, int) else (0 if exc.code is None else 1)
            except BaseException:   # an uncaught exception ends a real process with status 1
                code = 1
                err_text = traceback.format_exc()
        err_text = err.getvalue() + err_text
    finally:
        logger.removeHandler(collector)
        _MEMO['bypass'] = False
        sys.argv = old_argv
        os.chdir(old_cwd)
        tempfile.tempdir = old_tmp
        writer.close()          # what process exit does with never-finalised files
        script.COUNTER.counts.clear()
        import shutil
        shutil.rmtree(tmpdir, ignore_errors=True)
    return {'exit': code, 'records': collector.records, 'stderr': stream.getvalue() + err_text}


def run_subprocess(argv, workdir, hashseed='0', timeout=600):
    import subprocess
    env = dict(os.environ)
    env['PYTHONHASHSEED'] = str(hashseed)
    env['PYTHONPATH'] = common.REPO
    env['PYTHONDONTWRITEBYTECODE'] = '1'
    tmpdir = os.path.join(os.path.dirname(os.path.abspath(workdir)), 'tmp_' + os.path.basename(workdir))
    os.makedirs(tmpdir, exist_ok=True)
    env['TMPDIR'] = tmpdir
    res = subprocess.run(['/venv/bin/python', '-W', 'ignore', script_path()] + [str(a) for a in argv],
                         cwd=workdir, env=env, capture_output=True, text=True, timeout=timeout)
    import shutil
    shutil.rmtree(tmpdir, ignore_errors=True)
    return {'exit': res.returncode, 'stderr': res.stderr, 'stdout': res.stdout}


def parse_warnings(stderr):
    """(level name, type) of every log line the CLI printed at WARNING or above."""
    import re
    out = []
    for line in stderr.splitlines():
        m = re.match(r'\s*(WARNING|ERROR|CRITICAL) - ([^ ]+) - ', line)
        if m:
            out.append((m.group(1), m.group(2)))
    return out
