"""
In-process driver for bin/martinize2 (DESIGN §3a).

The script is loaded UNCHANGED as a module with SourceFileLoader; `entry()` is its own
code.  Only the loading of shipped data is memoised per process, and the state that a
process exit would reset (warning counter, pending deferred files) is reset between runs.
"""
import contextlib
import importlib.machinery
import importlib.util
import io
import logging
import os
import sys

from . import common

_SCRIPT = None


def load_script():
    """Load <repo>/bin/martinize2 as a module (once per process)."""
    global _SCRIPT
    if _SCRIPT is not None:
        return _SCRIPT
    path = os.path.join(common.REPO, 'bin', 'martinize2')
    loader = importlib.machinery.SourceFileLoader('martinize2_script', path)
    spec = importlib.util.spec_from_loader('martinize2_script', loader)
    module = importlib.util.module_from_spec(spec)
    with contextlib.redirect_stderr(io.StringIO()):
        loader.exec_module(module)
    # the script installs a console handler on the 'vermouth' logger: silence its stream
    module.CONSOLE_HANDLER.setStream(io.StringIO())
    _SCRIPT = module
    return module
