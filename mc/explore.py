"""
Engine A — explicit-state breadth-first search over operation histories.

A *state* is identified by the history (list of JSON-able operations) that reaches it; the
real objects are rebuilt on fresh instances by replaying the history (live objects carry
hidden caches and are not deep-copied).  After every transition the implementation state
is abstracted to a canonical form (which must include every hidden field that can
influence the future) and hashed for de-duplication; the reference model is stepped in
lock-step by the property's `apply`.

A property supplies a module-level *spec* object with

    initials()                 -> list of initial-state names (JSON-able)
    build(initial)             -> world   (fresh implementation objects + reference model)
    enabled(world)             -> list of operations enabled in that state (small finite menu)
    apply(world, op)           -> list of (signature, description) violations of this step
    canon(world)               -> JSON-able canonical abstraction of the implementation state
    interesting(world)         -> bool  (non-trivial state by the property's rule; optional)

Level-synchronous, parallel over the frontier.  Reports states, transitions, max depth.
"""
import hashlib
import json

from . import common
from .common import Acc

_SPEC = {}


def register(name, spec):
    _SPEC[name] = spec


def _key(canon):
    return hashlib.sha1(json.dumps(common.jsonable(canon), sort_keys=True).encode()).hexdigest()[:20]


def rebuild(spec, initial, history):
    world = spec.build(initial)
    for op in history:
        spec.apply(world, op)
    return world


def _expand(task):
    name, items = task
    spec = _SPEC[name]
    out = []
    acc = Acc()
    for initial, history in items:
        world = rebuild(spec, initial, history)
        ops = spec.enabled(world)
        for op in ops:
            world2 = rebuild(spec, initial, history)
            try:
                found = spec.apply(world2, op)
            except common.HarnessError:
                raise
            acc.transitions += 1
            acc.validated += 1
            for sig, desc in found:
                acc.violation(sig, desc, {'initial': initial, 'history': history + [op]})
            canon = spec.canon(world2)
            key = _key(canon)
            nontrivial = spec.interesting(world2) if hasattr(spec, 'interesting') else True
            out.append((key, initial, history + [op], bool(found), nontrivial, canon if len(out) % 997 == 0 else None))
            if hasattr(spec, 'dispose'):
                spec.dispose(world2)
        if hasattr(spec, 'dispose'):
            spec.dispose(world)
    return acc, out


def bfs(name, depth, acc, chunk=64, stop_on_violation_state=True):
    """Explore all histories up to `depth` from every initial state; merge counters into acc.
    A state in which a violation was observed is not expanded further (its futures are
    consequences of the same defect)."""
    spec = _SPEC[name]
    seen = set()
    frontier = []
    for initial in spec.initials():
        world = spec.build(initial)
        key = _key(spec.canon(world))
        if hasattr(spec, 'dispose'):
            spec.dispose(world)
        if key not in seen:
            seen.add(key)
            frontier.append((initial, []))
            acc.states += 1
            acc.outcomes.add(key[:16])
    max_depth = 0
    for level in range(1, depth + 1):
        if not frontier:
            break
        tasks = [(name, part) for part in common.chunked(frontier, chunk)]
        new_frontier = []
        for part_acc, out in common.pmap(_expand, tasks):
            acc += part_acc
            for key, initial, history, bad, nontrivial, canon in out:
                if key in seen:
                    continue
                seen.add(key)
                acc.states += 1
                if nontrivial:
                    acc.nontrivial += 1
                acc.outcomes.add(key[:16])
                if canon is not None and len(acc.samples) < common.MAX_SAMPLES:
                    acc.samples.append({'initial': initial, 'history': history, 'abstract_state': common.jsonable(canon)})
                max_depth = level
                if not (bad and stop_on_violation_state):
                    new_frontier.append((initial, history))
        frontier = new_frontier
    acc.extra['max_depth'] = max(acc.extra.get('max_depth', 0), max_depth)
    acc.extra['frontier_left_at_bound'] = len(frontier)
    return acc


def replay(name, case):
    """Re-run one history bare; returns the violations of every step."""
    spec = _SPEC[name]
    world = spec.build(case['initial'])
    found = []
    for op in case['history']:
        found.extend(spec.apply(world, op))
    if hasattr(spec, 'dispose'):
        spec.dispose(world)
    return found
