"""
Engine D — crash-point / fault seam for code that finalises files with os/shutil primitives.

`FaultSeam` routes, for the duration of a `with` block, every file-system primitive that
`vermouth.file_writer` uses when finalising (os.rename, os.unlink/os.remove, shutil.copyfile,
shutil.copystat, and the module's own `_open` used for appending, including the `write`
and `close` of the handle it returns) through a step counter.  At a chosen step a `Crash`
(a BaseException, so no `except Exception`/`except OSError` in the code under test can swallow it)
is raised

    flavour 'before' : the step does not happen
    flavour 'after'  : the step happens completely, then the process "dies"
    flavour 'torn0'  : data steps only (copyfile, write): destination created/opened, 0 bytes written
    flavour 'torn'   : data steps only: the first half of the bytes written

`exdev=True` makes os.rename answer EXDEV when source and destination live in different
directories of which one is the writer's temporary directory (what happens when TMPDIR is on
another file system), so shutil.move falls back to copy + unlink.

No change to the repository: only names in the harness process are patched.
"""
import errno
import os
import shutil


class Crash(BaseException):
    pass


class _Handle:
    """Wraps a real file object opened by the module's `_open` during finalisation."""

    def __init__(self, seam, real, path, mode):
        self._seam, self._real, self._path, self._mode = seam, real, path, mode

    def write(self, data):
        if 'r' in self._mode and '+' not in self._mode:
            return self._real.write(data)

        def full():
            self._real.write(data)
            self._real.flush()

        def part(n):
            self._real.write(data[:n])
            self._real.flush()
        self._seam.step('write', self._path, full, torn=part, size=len(data))
        return len(data)

    def read(self, *args):
        return self._real.read(*args)

    def close(self):
        return self._real.close()

    def __enter__(self):
        return self

    def __exit__(self, *exc):
        self._real.close()
        return False

    def __getattr__(self, name):
        return getattr(self._real, name)


class FaultSeam:
    def __init__(self, module, tmpdir=None, crash_at=None, flavour='before', exdev=False):
        self.module = module            # vermouth.file_writer
        self.tmpdir = os.path.realpath(tmpdir) if tmpdir else None
        self.crash_at = crash_at
        self.flavour = flavour
        self.exdev = exdev
        self.count = 0
        self.log = []
        self.data_steps = set()
        self._saved = {}

    # ---- the counting core
    def step(self, kind, what, full, torn=None, size=0):
        idx = self.count
        self.count += 1
        self.log.append((kind, str(what)))
        if torn is not None:
            self.data_steps.add(idx)
        if idx == self.crash_at:
            if self.flavour == 'before':
                raise Crash('%s before step %d %s %s' % (self.flavour, idx, kind, what))
            if self.flavour == 'after':
                full()
                raise Crash('after step %d %s %s' % (idx, kind, what))
            if torn is None:
                raise Crash('(no data step) before step %d' % idx)
            torn(0 if self.flavour == 'torn0' else size // 2)
            raise Crash('%s step %d %s %s' % (self.flavour, idx, kind, what))
        return full()

    def _in_tmp(self, path):
        return self.tmpdir is not None and os.path.dirname(os.path.realpath(str(path))) == self.tmpdir

    # ---- patched primitives
    def __enter__(self):
        real_rename, real_unlink, real_remove = os.rename, os.unlink, os.remove
        real_copyfile, real_copystat = shutil.copyfile, shutil.copystat
        real_open = self.module._open
        self._saved = {'rename': real_rename, 'unlink': real_unlink, 'remove': real_remove,
                       'copyfile': real_copyfile, 'copystat': real_copystat, 'open': real_open}
        seam = self

        def rename(src, dst, *a, **k):
            if seam.exdev and seam._in_tmp(src) != seam._in_tmp(dst):
                seam.log.append(('rename-EXDEV', '%s -> %s' % (src, dst)))
                raise OSError(errno.EXDEV, 'Invalid cross-device link')
            return seam.step('rename', '%s -> %s' % (src, dst), lambda: real_rename(src, dst, *a, **k))

        def unlink(path, *a, **k):
            return seam.step('unlink', path, lambda: real_unlink(path, *a, **k))

        def remove(path, *a, **k):
            return seam.step('remove', path, lambda: real_remove(path, *a, **k))

        def copyfile(src, dst, *a, **k):
            size = os.path.getsize(src)

            def part(n):
                with open(src, 'rb') as fin, open(dst, 'wb') as fout:
                    fout.write(fin.read(n))
            seam.step('copyfile', '%s -> %s' % (src, dst), lambda: real_copyfile(src, dst, *a, **k),
                      torn=part, size=size)
            return dst

        def copystat(src, dst, *a, **k):
            return seam.step('copystat', '%s -> %s' % (src, dst), lambda: real_copystat(src, dst, *a, **k))

        def _open(path, mode='r', *a, **k):
            if 'r' in mode and '+' not in mode:
                return real_open(path, mode, *a, **k)
            box = {}

            def do():
                box['f'] = real_open(path, mode, *a, **k)
            seam.step('open(%s)' % mode, path, do)
            return _Handle(seam, box['f'], path, mode)

        os.rename, os.unlink, os.remove = rename, unlink, remove
        shutil.copyfile, shutil.copystat = copyfile, copystat
        self.module._open = _open
        return self

    def __exit__(self, *exc):
        os.rename, os.unlink, os.remove = self._saved['rename'], self._saved['unlink'], self._saved['remove']
        shutil.copyfile, shutil.copystat = self._saved['copyfile'], self._saved['copystat']
        self.module._open = self._saved['open']
        return False
