"""
Shared machinery of the explorers: accumulation of coverage counters, violations,
known findings, replay artefacts, evidence files and the 16-way fan-out.

Nothing in here knows about a particular property.  A property module
(`props/cNN.py`) exposes

    RULE      str   how cases are enumerated and what makes one non-trivial
    LEVEL     str   evidence level (default "model_checking")
    def run(ctx)    drive the exploration, feeding ctx (or Acc objects merged into it)
    def replay(case) -> list[(signature, description)]   re-run ONE case bare

The runner (mc/runner.py) does everything else.
"""
import collections
import hashlib
import json
import multiprocessing
import itertools
import os
import re
import shutil
import sys
import tempfile
import time
import traceback

VERIF = os.path.dirname(os.path.dirname(os.path.abspath(__file__)))
REPO = os.path.abspath(os.environ.get('VERIF_REPO', '/repo'))
NPROC = int(os.environ.get('VERIF_NPROC', '16'))
MAX_SAMPLES = 6
MAX_REPLAYS_PER_SIG = 3


def bind_repo():
    """Make `import vermouth` resolve to REPO's working tree and prove it."""
    if REPO not in sys.path:
        sys.path.insert(0, REPO)
    import vermouth
    where = os.path.dirname(os.path.abspath(vermouth.__file__))
    if not where.startswith(REPO + os.sep):
        raise HarnessError('vermouth imported from %s, not from %s' % (where, REPO))
    return vermouth


class HarnessError(Exception):
    """The harness, not the code under test, is at fault: exit status 3."""


def jsonable(obj):
    """Best-effort conversion to something json.dump accepts (for samples/replays)."""
    if isinstance(obj, (str, int, bool)) or obj is None:
        return obj
    if isinstance(obj, float):
        if obj != obj:
            return 'nan'
        if obj in (float('inf'), float('-inf')):
            return repr(obj)
        return obj
    if isinstance(obj, dict):
        return {str(k): jsonable(v) for k, v in obj.items()}
    if isinstance(obj, (list, tuple)):
        return [jsonable(v) for v in obj]
    if isinstance(obj, (set, frozenset)):
        return sorted((jsonable(v) for v in obj), key=repr)
    try:
        import numpy
        if isinstance(obj, numpy.ndarray):
            return jsonable(obj.tolist())
        if isinstance(obj, numpy.generic):
            return jsonable(obj.item())
    except ImportError:
        pass
    return repr(obj)


def digest(obj):
    return hashlib.sha1(json.dumps(jsonable(obj), sort_keys=True).encode()).hexdigest()[:16]


class Acc:
    """Counters of one (partial) exploration.  Picklable; merged with `+=`."""

    def __init__(self):
        self.states = 0          # distinct inputs / abstract states explored
        self.transitions = 0     # implementation calls / steps
        self.validated = 0       # model predictions compared with the implementation
        self.nontrivial = 0      # distinct cases that are non-trivial by the module's RULE
        self.outcomes = set()    # digests of distinct observed outcomes (vacuity guard)
        self.violations = []     # (signature, description, case)
        self.samples = []
        self.extra = collections.Counter()   # named counters, summed
        self.caps = []           # caps that were hit, as text

    def case(self, nontrivial=True, outcome=None, sample=None, transitions=1, validated=1):
        self.states += 1
        self.transitions += transitions
        self.validated += validated
        if nontrivial:
            self.nontrivial += 1
        if outcome is not None:
            if len(self.outcomes) < 200000:
                self.outcomes.add(outcome if isinstance(outcome, str) and len(outcome) <= 16
                                  else digest(outcome))
        if sample is not None and len(self.samples) < MAX_SAMPLES:
            self.samples.append(jsonable(sample))

    def violation(self, signature, description, case):
        # keep memory bounded: a broken tree can violate on every case
        n_same = sum(1 for v in self.violations if v[0] == signature)
        if n_same < MAX_REPLAYS_PER_SIG:
            self.violations.append((signature, description, jsonable(case)))
        self.extra['violating_cases'] += 1

    def __iadd__(self, other):
        self.states += other.states
        self.transitions += other.transitions
        self.validated += other.validated
        self.nontrivial += other.nontrivial
        self.outcomes |= other.outcomes
        for v in other.violations:
            n_same = sum(1 for w in self.violations if w[0] == v[0])
            if n_same < MAX_REPLAYS_PER_SIG:
                self.violations.append(v)
        for s in other.samples:
            if len(self.samples) < MAX_SAMPLES:
                self.samples.append(s)
        self.extra.update(other.extra)
        self.caps.extend(c for c in other.caps if c not in self.caps)
        return self


class LogCapture:
    """Collect records emitted on the 'vermouth' logger (and children)."""

    def __init__(self, name='vermouth'):
        import logging
        self.logging = logging
        self.logger = logging.getLogger(name)
        self.records = []
        outer = self

        class _H(logging.Handler):
            def emit(self, record):
                outer.records.append(record)
        self.handler = _H(level=1)

    def __enter__(self):
        self.records = []
        self.logger.addHandler(self.handler)
        self._old = self.logger.level
        self.logger.setLevel(1)
        return self

    def __exit__(self, *exc):
        self.logger.removeHandler(self.handler)
        self.logger.setLevel(self._old)
        return False

    def types(self, minlevel=None):
        minlevel = self.logging.WARNING if minlevel is None else minlevel
        return [getattr(r, 'type', 'general') for r in self.records if r.levelno >= minlevel]

    def messages(self, minlevel=None):
        minlevel = self.logging.WARNING if minlevel is None else minlevel
        out = []
        for r in self.records:
            if r.levelno >= minlevel:
                try:
                    out.append(r.getMessage())
                except Exception:
                    out.append(str(r.msg))
        return out


# --- process history of a worker --------------------------------------------------------------
# A forked worker handles several tasks one after another; code under test that keeps state between
# calls (a module-level cache, a mutated default) makes a later case fail only because of the earlier
# ones.  Every violation therefore carries the ordered list of tasks its worker had executed so far,
# so that the runner can replay the case together with that history when it does not fail on its own.
_HIST = []
_PMAPS = {}
_PMAP_IDS = itertools.count()


def _worker_init():
    # workers inherit the bound repo by fork; make sure BLAS does not oversubscribe
    os.environ['OMP_NUM_THREADS'] = '1'
    del _HIST[:]


def _call(args):
    fn, task, key = args
    if key is not None:
        _HIST.append(key)
    try:
        res = fn(task)
    except HarnessError:
        raise
    except BaseException as err:   # a crash of the harness inside a worker
        raise HarnessError('worker failed on task %r:\n%s' % (task, traceback.format_exc())) from err
    if key is not None and isinstance(res, Acc) and res.violations:
        hist = [list(k) for k in _HIST]
        res.violations = [(sig, desc, dict(case, _history=hist) if isinstance(case, dict) else case)
                          for sig, desc, case in res.violations]
    return res


def pmap(fn, tasks, nproc=None, chunksize=1, fresh=False):
    """Ordered parallel map over `tasks` with forked workers (fn must be module level).
    fresh=True gives every task its own newly forked process (no interpreter state is shared
    between tasks: needed where a task must start from a clean module state)."""
    tasks = list(tasks)
    pid = next(_PMAP_IDS)
    _PMAPS[pid] = (fn, tasks)
    nproc = min(nproc or NPROC, max(1, len(tasks)))
    if nproc <= 1 or os.environ.get('VERIF_SERIAL'):
        del _HIST[:]
        for idx, t in enumerate(tasks):
            yield _call((fn, t, (pid, idx)))
        del _HIST[:]
        return
    ctx = multiprocessing.get_context('fork')
    with ctx.Pool(nproc, initializer=_worker_init, maxtasksperchild=1 if fresh else None) as pool:
        for res in pool.imap(_call, [(fn, t, (pid, idx)) for idx, t in enumerate(tasks)], chunksize=chunksize):
            yield res


def _apply(args):
    fn, fargs = args
    return fn(*fargs)


def in_child(fn, *fargs):
    """fn(*fargs) in a newly forked process (fn module level, result picklable)."""
    ctx = multiprocessing.get_context('fork')
    with ctx.Pool(1, initializer=_worker_init, maxtasksperchild=1) as pool:
        return pool.apply(_apply, ((fn, fargs),))


def _run_history(entries):
    res = None
    for fn, task in entries:
        res = fn(task)
    return [(sig, desc) for sig, desc, _ in getattr(res, 'violations', [])]


def history_entries(hist):
    return [(_PMAPS[pid][0], _PMAPS[pid][1][idx]) for pid, idx in hist]


def replay_history(entries):
    """Replays, in one fresh process, the tasks a worker had executed up to and including the failing one;
    returns the (signature, description) pairs of the LAST task."""
    return in_child(_run_history, entries)


def pack_history(entries):
    import base64, pickle, zlib
    blob = zlib.compress(pickle.dumps([(fn.__module__, fn.__qualname__, task) for fn, task in entries]), 9)
    return base64.b64encode(blob).decode('ascii')


def unpack_history(text):
    import base64, pickle, zlib, importlib
    out = []
    for mod, name, task in pickle.loads(zlib.decompress(base64.b64decode(text))):
        out.append((getattr(importlib.import_module(mod), name), task))
    return out


def chunked(iterable, n):
    buf = []
    for item in iterable:
        buf.append(item)
        if len(buf) == n:
            yield buf
            buf = []
    if buf:
        yield buf


class Scratch:
    """A private scratch root outside /repo and /verif, removed on exit."""

    def __init__(self, tag):
        self.root = tempfile.mkdtemp(prefix='verif_%s_' % tag)

    def sub(self, name=None):
        if name is None:
            return tempfile.mkdtemp(dir=self.root)
        path = os.path.join(self.root, name)
        os.makedirs(path, exist_ok=True)
        return path

    def cleanup(self):
        shutil.rmtree(self.root, ignore_errors=True)


def slug(text):
    return re.sub(r'[^A-Za-z0-9_.-]+', '_', text)[:80].strip('_') or 'x'


def load_known():
    path = os.path.join(VERIF, 'known_findings.json')
    if not os.path.exists(path):
        return {'known': [], 'fixed': []}
    with open(path) as handle:
        return json.load(handle)
