"""
./check <ID> [--tier quick|thorough] [--replay FILE]

exit 0  property held on everything explored (KNOWN-FINDING lines may be printed)
exit 1  at least one `VIOLATION property=<id> replay=<path>` line
exit 3  harness error (vacuous exploration, non-reproducible failure, crash of the harness)
"""
import argparse
import importlib
import json
import os
import subprocess
import sys
import time
import traceback

from . import common
from .common import Acc, HarnessError, VERIF


class Ctx(Acc):
    def __init__(self, pid, tier, seed):
        super().__init__()
        self.pid = pid
        self.tier = tier
        self.seed = seed
        self.bound = {}
        self.layers = {}
        self.assumptions = []
        self.exhaustive = True

    @property
    def quick(self):
        return self.tier == 'quick'

    def layer(self, name, acc):
        """Merge a layer's counters and remember them separately."""
        self.layers[name] = {
            'states': acc.states, 'transitions': acc.transitions,
            'validated': acc.validated, 'nontrivial': acc.nontrivial,
            'distinct_outcomes': len(acc.outcomes),
            'extra': dict(acc.extra),
        }
        self += acc

    def cap(self, text):
        self.exhaustive = False
        if text not in self.caps:
            self.caps.append(text)


def write_evidence(ctx, module, wall, n_violations, known_lines):
    level = getattr(module, 'LEVEL', 'model_checking')
    coverage = {
        'states': ctx.states,
        'transitions': ctx.transitions,
        'traces_validated_against_impl': ctx.validated,
        'evaluations': ctx.transitions,
        'distinct_nontrivial': ctx.nontrivial,
        'distinct_outcomes': len(ctx.outcomes),
        'rule': getattr(module, 'RULE', ''),
        'samples': ctx.samples[:common.MAX_SAMPLES] or ['(none recorded)'],
        'exhaustive': bool(ctx.exhaustive and not ctx.caps),
        'bound': ctx.bound,
        'caps_hit': ctx.caps,
        'layers': ctx.layers,
        'counters': dict(ctx.extra),
        'known_findings_reported': known_lines,
        'repo': common.REPO,
        'explanation': getattr(module, 'EXPLANATION', ''),
        'trusted_base': getattr(module, 'TRUSTED', ['CPython 3.12', 'numpy', 'networkx graph containers',
                                                    'the harness reference models under /verif/props']),
    }
    evidence = {
        'property_id': ctx.pid,
        'tier': ctx.tier,
        'seed': ctx.seed,
        'level': level,
        'coverage': coverage,
        'assumptions': list(getattr(module, 'ASSUMPTIONS', [])) + ctx.assumptions,
        'wall_s': round(wall, 3),
        'violations': n_violations,
    }
    evdir = os.environ.get('VERIF_EVIDENCE_DIR') or os.path.join(VERIF, 'evidence')
    os.makedirs(evdir, exist_ok=True)
    path = os.path.join(evdir, '%s.json' % ctx.pid)
    tmp = path + '.tmp'
    with open(tmp, 'w') as handle:
        json.dump(evidence, handle, indent=1, sort_keys=True)
        handle.write('\n')
    os.replace(tmp, path)
    if os.environ.get('VERIF_VALIDATE', '1') == '1':
        validate(path)
    return path


def validate(path):
    code = ("import json,sys,jsonschema;"
            "jsonschema.validate(json.load(open(sys.argv[1])),json.load(open('/root/.vp/EVIDENCE.schema.json')))")
    exe = '/opt/veriftools/pyvenv/bin/python'
    if not (os.path.exists(exe) and os.path.exists('/root/.vp/EVIDENCE.schema.json')):
        return
    res = subprocess.run([exe, '-c', code, path], capture_output=True, text=True)
    if res.returncode != 0:
        raise HarnessError('evidence %s does not validate:\n%s' % (path, res.stderr[-2000:]))


def main(argv=None):
    parser = argparse.ArgumentParser()
    parser.add_argument('pid')
    parser.add_argument('--tier', default=os.environ.get('VERIF_TIER', 'quick'), choices=['quick', 'thorough'])
    parser.add_argument('--replay')
    args = parser.parse_args(argv)
    pid = args.pid.upper()
    seed = int(os.environ.get('VERIF_SEED', '0') or 0)
    started = time.time()
    try:
        common.bind_repo()
        module = importlib.import_module('props.%s' % pid.lower())
        if args.replay:
            return do_replay(pid, module, args.replay)
        ctx = Ctx(pid, args.tier, seed)
        module.run(ctx)
        return finish(ctx, module, started)
    except HarnessError as err:
        print('HARNESS-ERROR property=%s %s' % (pid, err), file=sys.stderr)
        return 3
    except Exception:
        print('HARNESS-ERROR property=%s\n%s' % (pid, traceback.format_exc()), file=sys.stderr)
        return 3


def do_replay(pid, module, path):
    with open(path) as handle:
        artefact = json.load(handle)
    if artefact.get('history'):
        found = [f for f in common.replay_history(common.unpack_history(artefact['history'])) if f[0] == artefact['signature']]
    else:
        found = module.replay(artefact['case'])
    if found:
        for sig, desc in found:
            print('REPRODUCED property=%s signature=%s :: %s' % (pid, sig, desc))
        return 1
    print('NOT-REPRODUCED property=%s (%s)' % (pid, path))
    return 0


def strip(case):
    return {k: v for k, v in case.items() if k != '_history'} if isinstance(case, dict) else case


def finish(ctx, module, started):
    pid = ctx.pid
    known = common.load_known()
    known_sigs = {k['signature']: k for k in known.get('known', []) if k.get('property') == pid}
    by_sig = {}
    for sig, desc, case in ctx.violations:
        by_sig.setdefault(sig, []).append((desc, case))
    real, known_lines, unreproduced = [], [], []
    for sig, items in by_sig.items():
        if sig in known_sigs:
            line = 'KNOWN-FINDING: property=%s %s [%s]' % (pid, known_sigs[sig].get('what', ''), sig)
            print(line)
            known_lines.append(line)
            continue
        # reproduce before reporting: the same case must fail twice more, each time in a newly forked process -
        # first bare; if it does not fail on its own, together with the tasks its worker process had executed
        # before it (code that keeps state between calls fails only after a particular history)
        if not hasattr(module, 'replay') or os.environ.get('VERIF_NO_RECHECK'):
            real.append((sig, [(d, strip(c), None) for d, c in items]))
            continue
        confirmed = []
        tried = []
        for desc, case in items:
            bare = strip(case)
            again = [common.in_child(module.replay, bare), common.in_child(module.replay, bare)]
            sigs = [sorted(s for s, _ in a) for a in again]
            if sigs[0] == sigs[1] and sig in sigs[0]:
                confirmed.append((desc, bare, None))
                continue
            tried.append(sigs)
            hist = case.get('_history') if isinstance(case, dict) else None
            if hist:
                entries = common.history_entries(hist)
                again = [common.replay_history(entries), common.replay_history(entries)]
                sigs = [sorted(s for s, _ in a) for a in again]
                tried.append(sigs)
                if sigs[0] == sigs[1] and sig in sigs[0]:
                    confirmed.append((desc + ' [does not fail on its own: fails after the earlier cases its worker process had run '
                                      '(%d earlier task(s) plus the earlier cases of its own task) - state kept between calls]' % (len(entries) - 1), bare, entries))
        if confirmed:
            real.append((sig, confirmed))
        else:
            unreproduced.append((sig, tried))
    if unreproduced and not real:
        raise HarnessError('violation(s) %s did not reproduce identically on replay: %r' % (
            [u[0] for u in unreproduced], unreproduced[0][1]))
    for sig, tried in unreproduced:
        print('NOTE property=%s signature=%s was observed but did not reproduce on replay (%r); not reported' % (pid, sig, tried),
              file=sys.stderr)
    replay_dir = os.path.join(os.environ.get('VERIF_REPLAY_DIR') or os.path.join(VERIF, 'replays'), pid)
    for sig, items in real:
        os.makedirs(replay_dir, exist_ok=True)
        for idx, (desc, case, entries) in enumerate(items):
            path = os.path.join(replay_dir, '%s_%d.json' % (common.slug(sig), idx))
            artefact = {'property': pid, 'signature': sig, 'description': desc, 'case': case,
                        'replay_cmd': './check %s --replay %s' % (pid, path)}
            if entries:
                artefact['history_tasks'] = len(entries)
                artefact['history'] = common.pack_history(entries)
            with open(path, 'w') as handle:
                json.dump(artefact, handle, indent=1, sort_keys=True)
            print('VIOLATION property=%s replay=%s' % (pid, path))
            print('  signature=%s :: %s' % (sig, desc))
    wall = time.time() - started
    write_evidence(ctx, module, wall, sum(len(i) for _, i in real), known_lines)
    print('%s tier=%s states=%d transitions=%d validated=%d nontrivial=%d distinct_outcomes=%d '
          'violating_cases=%d wall=%.1fs%s' % (
              pid, ctx.tier, ctx.states, ctx.transitions, ctx.validated, ctx.nontrivial,
              len(ctx.outcomes), ctx.extra.get('violating_cases', 0), wall,
              ' CAPS=%s' % ctx.caps if ctx.caps else ''))
    for name, lay in ctx.layers.items():
        print('  layer %-22s states=%d transitions=%d validated=%d outcomes=%d' % (
            name, lay['states'], lay['transitions'], lay['validated'], lay['distinct_outcomes']))
    if real:
        return 1
    # vacuity guard
    if ctx.states < 2 or ctx.nontrivial < 2 or len(ctx.outcomes) < 2:
        print('HARNESS-ERROR property=%s vacuous exploration (states=%d nontrivial=%d outcomes=%d)' % (
            pid, ctx.states, ctx.nontrivial, len(ctx.outcomes)), file=sys.stderr)
        return 3
    return 0


if __name__ == '__main__':
    sys.exit(main())
